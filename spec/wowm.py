"""Independent reader of the wowm corpus (specification side).

Written from wow_message_parser/src/auth.pest and wowm_language/src/spec/*.md; shares no code with
wow_message_parser. It produces plain dict structures:

  definer   {kind:'enum'|'flag', name, base, members:[{name, raw, value}], tags, file, line}
  container {kind:'struct'|'clogin'|'slogin'|'smsg'|'cmsg'|'msg', name, opcode, members, tags, file, line}
     member := {k:'field', ty, name, const, tags}
             | {k:'if', branches:[{conds:[(var, op, enumerator)], members}], else_:members|None}
             | {k:'optional', name, members}
             | {k:'unimplemented'}
     ty     := {t:'prim'|'named', name, upcast:None|prim} | {t:'array', inner:ty, size:int|str|'-'}
  test      {name, fields, bytes, tags, file, line}
"""
import glob
import os
import re

PRIMS = ["i8", "i16", "i32", "i64", "u8_be", "u16_be", "u32_be", "u64_be", "u8", "u16", "u32", "u64", "i32_be",
         "f32_be", "f32", "f64_be", "f64", "u48", "CString"]

TOKEN = re.compile(r"""
    (?P<ws>\s+)
  | (?P<doc>///[^\n]*)
  | (?P<comment>/\*.*?\*/)
  | (?P<string>"[^"]*")
  | (?P<num>-?\d+\.\d+|0x[0-9A-Fa-f]+|0b[01]+|-?\d+(?![A-Za-z_]))
  | (?P<selfsize>self\.size)
  | (?P<ident>[A-Za-z_0-9]+)
  | (?P<op>\|\||==|!=|[#{}\[\]();:=,&|\-])
""", re.X | re.S)


class ParseError(Exception):
    pass


def tokenize(text, fname):
    toks = []
    pos = 0
    line = 1
    n = len(text)
    while pos < n:
        m = TOKEN.match(text, pos)
        if not m:
            raise ParseError("%s:%d: cannot tokenize %r" % (fname, line, text[pos:pos + 20]))
        kind = m.lastgroup
        s = m.group()
        if kind not in ("ws", "comment", "doc"):
            toks.append((kind, s, line))
        line += s.count("\n")
        pos = m.end()
    toks.append(("eof", "", line))
    return toks


class P:
    def __init__(self, toks, fname):
        self.t = toks
        self.i = 0
        self.f = fname

    def peek(self, k=0):
        return self.t[self.i + k]

    def next(self):
        t = self.t[self.i]
        self.i += 1
        return t

    def accept(self, s):
        if self.t[self.i][1] == s and self.t[self.i][0] != "string":
            self.i += 1
            return True
        return False

    def expect(self, s):
        t = self.next()
        if t[1] != s or t[0] == "string":
            raise ParseError("%s:%d: expected %r, got %r" % (self.f, t[2], s, t[1]))
        return t

    def ident(self):
        t = self.next()
        if t[0] not in ("ident", "num"):
            raise ParseError("%s:%d: expected identifier, got %r" % (self.f, t[2], t[1]))
        return t[1]

    def string(self):
        t = self.next()
        if t[0] != "string":
            raise ParseError("%s:%d: expected string, got %r" % (self.f, t[2], t[1]))
        return t[1][1:-1]


def parse_int(raw):
    """Integer value of a wowm `value` (dec / hex / bin / 4-char-or-shorter string packed big-endian), else None."""
    if raw is None:
        return None
    r = raw
    if r.startswith('"'):
        # lang-spec.md: bytes of the string packed big-endian; `\0` stands for a single zero byte
        s = r[1:-1].replace("\\0", "\0")
        v = 0
        for ch in s.encode("utf-8"):
            v = (v << 8) | ch
        return v
    try:
        if r.startswith("0x"):
            return int(r, 16)
        if r.startswith("0b"):
            return int(r, 2)
        if re.match(r"^-?\d+$", r):
            return int(r)
    except ValueError:
        pass
    return None


def parse_kv_block(p):
    """{ key = "value"; ... } -> list of (key, value)"""
    out = []
    p.expect("{")
    while not p.accept("}"):
        k = p.ident()
        p.expect("=")
        v = p.string()
        p.expect(";")
        out.append((k, v))
    return out


def parse_value(p):
    t = p.next()
    if t[0] in ("num", "ident", "selfsize"):
        return t[1]
    if t[0] == "string":
        return t[1]
    raise ParseError("%s:%d: expected value, got %r" % (p.f, t[2], t[1]))


def parse_definer(p, kw, line):
    name = p.ident()
    p.expect(":")
    base = p.ident()
    p.expect("{")
    members = []
    while not p.accept("}"):
        mname = p.ident()
        p.expect("=")
        raw = parse_value(p)
        tags = []
        if p.peek()[1] == "{" and p.peek()[0] == "op":
            tags = parse_kv_block(p)
        else:
            p.expect(";")
        members.append(dict(name=mname, raw=raw, value=parse_int(raw), tags=tags))
    tags = []
    while p.peek()[1] == "{" and p.peek()[0] == "op":
        tags += parse_kv_block(p)
    return dict(obj="definer", kind=kw, name=name, base=base, members=members, tags=tags, file=p.f, line=line)


def parse_type(p):
    """container_type: array_type | basic_type | upcasted_type? identifier"""
    upcast = None
    if p.accept("("):
        upcast = p.ident()
        p.expect(")")
    name = p.ident()
    ty = dict(t="prim" if name in PRIMS else "named", name=name, upcast=upcast)
    if p.peek()[1] == "[" and p.peek()[0] == "op":
        p.next()
        if p.accept("-"):
            size = "-"
        else:
            s = p.ident()
            size = int(s) if re.match(r"^\d+$", s) else s
        p.expect("]")
        ty = dict(t="array", inner=ty, size=size)
    return ty


def parse_cond(p):
    var = p.ident()
    op = p.next()[1]
    if op not in ("==", "!=", "&"):
        raise ParseError("%s: bad operator %r" % (p.f, op))
    val = parse_value(p)
    return (var, op, val)


def parse_conds(p):
    p.expect("(")
    conds = [parse_cond(p)]
    while p.accept("||"):
        conds.append(parse_cond(p))
    p.expect(")")
    return conds


def parse_members(p):
    """members until the closing brace (consumes it)."""
    out = []
    while not p.accept("}"):
        out.append(parse_member(p))
    return out


def parse_member(p):
    t = p.peek()
    if t[1] == "if" and t[0] == "ident":
        p.next()
        branches = []
        conds = parse_conds(p)
        p.expect("{")
        branches.append(dict(conds=conds, members=parse_members(p)))
        else_ = None
        while p.peek()[1] == "else" and p.peek()[0] == "ident":
            p.next()
            if p.peek()[1] == "if" and p.peek()[0] == "ident":
                p.next()
                conds = parse_conds(p)
                p.expect("{")
                branches.append(dict(conds=conds, members=parse_members(p)))
            else:
                p.expect("{")
                else_ = parse_members(p)
                break
        return dict(k="if", branches=branches, else_=else_, line=t[2])
    if t[1] == "optional" and t[0] == "ident" and p.peek(1)[0] == "ident" and p.peek(2)[1] == "{":
        p.next()
        name = p.ident()
        p.expect("{")
        members = parse_members(p)
        tags = []
        if p.peek()[1] == "{" and p.peek()[0] == "op":
            tags = parse_kv_block(p)
        return dict(k="optional", name=name, members=members, tags=tags, line=t[2])
    if t[1] == "unimplemented" and t[0] == "ident":
        p.next()
        return dict(k="unimplemented", line=t[2])
    ty = parse_type(p)
    name = p.ident()
    const = None
    while p.accept("="):
        const = parse_value(p)
    tags = []
    if p.peek()[1] == "{" and p.peek()[0] == "op":
        tags = parse_kv_block(p)
    else:
        p.expect(";")
    return dict(k="field", ty=ty, name=name, const=const, tags=tags, line=t[2])


def parse_container(p, kw, line):
    name = p.ident()
    opcode = None
    if p.accept("="):
        opcode = parse_int(parse_value(p))
    p.expect("{")
    members = parse_members(p)
    tags = []
    if p.peek()[1] == "{" and p.peek()[0] == "op":
        tags = parse_kv_block(p)
    return dict(obj="container", kind=kw, name=name, opcode=opcode, members=members, tags=tags, file=p.f, line=line)


def parse_test_value(p):
    """array | multiple_values | sub_object | array_of_sub_objects"""
    t = p.peek()
    if t[1] == "[" and t[0] == "op":
        p.next()
        items = []
        while not p.accept("]"):
            if p.peek()[1] == "{" and p.peek()[0] == "op":
                items.append(parse_sub_object(p))
            else:
                items.append(parse_value(p))
            p.accept(",")
        return dict(k="array", items=items)
    if t[1] == "{" and t[0] == "op":
        return parse_sub_object(p)
    vals = [parse_value(p)]
    while p.accept("|"):
        vals.append(parse_value(p))
    return dict(k="values", vals=vals)


def parse_sub_object(p):
    p.expect("{")
    fields = []
    while not p.accept("}"):
        fields.append(parse_test_item(p))
    return dict(k="object", fields=fields)


def parse_test_item(p):
    name = p.ident()
    p.expect("=")
    v = parse_test_value(p)
    tags = []
    if p.peek()[1] == "{" and p.peek()[0] == "op":
        tags = parse_kv_block(p)
    else:
        p.expect(";")
    return dict(name=name, value=v, tags=tags)


def parse_test(p, line):
    name = p.ident()
    p.expect("{")
    fields = []
    while not p.accept("}"):
        fields.append(parse_test_item(p))
    p.expect("[")
    bs = []
    while not p.accept("]"):
        v = parse_value(p)
        bs.append(parse_int(v))
        p.accept(",")
    tags = []
    if p.peek()[1] == "{" and p.peek()[0] == "op":
        tags = parse_kv_block(p)
    return dict(obj="test", name=name, fields=fields, bytes=bs, tags=tags, file=p.f, line=line)


def parse_file(path, rel):
    text = open(path, encoding="utf-8").read()
    p = P(tokenize(text, rel), rel)
    commands = []
    objs = []
    while p.peek()[0] != "eof":
        t = p.next()
        if t[1] == "#" and t[0] == "op":
            cmd = p.ident()
            key = p.ident()
            val = p.string()
            p.expect(";")
            commands.append((cmd, key, val))
        elif t[1] in ("enum", "flag"):
            objs.append(parse_definer(p, t[1], t[2]))
        elif t[1] in ("struct", "clogin", "slogin", "smsg", "cmsg", "msg"):
            objs.append(parse_container(p, t[1], t[2]))
        elif t[1] == "test":
            objs.append(parse_test(p, t[2]))
        else:
            raise ParseError("%s:%d: unexpected %r" % (rel, t[2], t[1]))
    for cmd, key, val in commands:
        if cmd == "tag_all":
            for o in objs:
                o["tags"] = [(key, val)] + o["tags"]
    return objs


class Corpus:
    def __init__(self, repo):
        self.repo = repo
        self.objs = []
        base = os.path.join(repo, "wow_message_parser", "wowm")
        files = sorted(glob.glob(os.path.join(base, "**", "*.wowm"), recursive=True))
        if not files:
            raise ParseError("no wowm files under " + base)
        for f in files:
            rel = os.path.relpath(f, repo)
            self.objs += parse_file(f, rel)
        self.by_loc = {(o["file"], o["line"]): o for o in self.objs if o["obj"] != "test"}
        self.definers = [o for o in self.objs if o["obj"] == "definer"]
        self.containers = [o for o in self.objs if o["obj"] == "container"]
        self.tests = [o for o in self.objs if o["obj"] == "test"]


def tag(o, key, default=None):
    vals = [v for k, v in o["tags"] if k == key]
    return vals[-1] if vals else default


def tags_all(o, key):
    return [v for k, v in o["tags"] if k == key]


# ---- versions -------------------------------------------------------------------------------

def world_versions(o):
    """list of version tuples (major[,minor[,patch[,build]]]) or ['*'] from versions + paste_versions tags."""
    out = []
    for key in ("versions", "paste_versions"):
        for v in tags_all(o, key):
            for part in v.split():
                if part == "*":
                    out.append("*")
                else:
                    out.append(tuple(int(x) for x in part.split(".")))
    return out


def login_versions(o):
    out = []
    for v in tags_all(o, "login_versions"):
        for part in v.split():
            out.append("*" if part == "*" else int(part))
    return out


def covers_world(pattern, exact):
    """does version pattern (prefix tuple or '*') cover the exact version tuple"""
    if pattern == "*":
        return True
    return tuple(exact[:len(pattern)]) == tuple(pattern)


MAIN_WORLD = {"vanilla": (1, 12), "tbc": (2, 4, 3), "wrath": (3, 3, 5)}


def object_covers(o, ver):
    """ver: ('world', exact tuple) or ('login', n)"""
    if ver[0] == "world":
        return any(covers_world(p, ver[1]) for p in world_versions(o))
    lv = login_versions(o)
    return any(p == "*" or p == ver[1] for p in lv)


if __name__ == "__main__":
    import sys
    c = Corpus(sys.argv[1] if len(sys.argv) > 1 else "/repo")
    print("objects", len(c.objs), "definers", len(c.definers), "containers", len(c.containers), "tests", len(c.tests))
