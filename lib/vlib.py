"""Shared machinery: scratch copies of /repo, Kani and Verus drivers, obligation
book-keeping, known findings, replay files, evidence.

Terminology used throughout
  contract    one harness (Kani) or one proof fn / exec fn (Verus): requires+ensures around
              one call (or a small composition) of real code from /repo.
  obligation  one verification condition the back end reports on: a named clause
              "<prop>:<name>" of a contract, or a built-in check (overflow, index, panic,
              unwinding) generated from the real code reached by the contract.
  complete    loop-free (or fully unwound with unwinding assertions on) over the full input
              domain: counted as proved when discharged.
  bounded     stated bound on input length / collection sizes: reported separately, never
              counted as proved.
"""
import atexit
import hashlib
import json
import os
import re
import shutil
import signal
import subprocess
import sys
import time

VERIF = os.path.dirname(os.path.dirname(os.path.abspath(__file__)))
REPO = os.environ.get("VERIF_REPO", "/repo")
ENV = dict(os.environ)
ENV["CARGO_NET_OFFLINE"] = "true"
ENV.pop("RUSTFLAGS", None)

_scratch_dirs = []


def _cleanup():
    for d in list(_scratch_dirs):
        shutil.rmtree(d, ignore_errors=True)
        try:
            _scratch_dirs.remove(d)
        except ValueError:
            pass


atexit.register(_cleanup)


def _sig(signum, frame):
    _cleanup()
    sys.exit(2)


for _s in (signal.SIGTERM, signal.SIGINT, signal.SIGHUP):
    try:
        signal.signal(_s, _sig)
    except Exception:
        pass


def log(*a):
    print(*a, file=sys.stderr, flush=True)


def scratch_root():
    base = os.environ.get("VERIF_SCRATCH")
    if not base:
        base = "/var/tmp"
    d = os.path.join(base, "verif-%d-%d" % (os.getpid(), int(time.time() * 1000) % 100000))
    return d


def make_scratch(with_repo=True):
    """Fresh copy of /repo's *current working tree* (minus target/ and .git/)."""
    d = scratch_root()
    os.makedirs(d, exist_ok=True)
    _scratch_dirs.append(d)
    if with_repo:
        subprocess.run(
            ["rsync", "-a", "--exclude", "/target", "--exclude", ".git", REPO + "/", d + "/repo/"],
            check=True,
        )
    return d


def drop_scratch(d):
    shutil.rmtree(d, ignore_errors=True)
    if d in _scratch_dirs:
        _scratch_dirs.remove(d)


def read(path):
    with open(path, encoding="utf-8") as f:
        return f.read()


def write(path, s):
    os.makedirs(os.path.dirname(path), exist_ok=True)
    with open(path, "w", encoding="utf-8") as f:
        f.write(s)


def sha(s):
    if isinstance(s, str):
        s = s.encode()
    return hashlib.sha256(s).hexdigest()[:16]


# --------------------------------------------------------------------------------------
# Injection of harness modules into the scratch copy (never into /repo)
# --------------------------------------------------------------------------------------

def inject(scratch, crate, modules, host="src/lib.rs", moddir="src/verif_kani", modname="verif_kani",
           extra_root=""):
    """modules: {name: rust_source}. Appends exactly one line `#[cfg(kani)] mod verif_kani;`
    to `host` and drops the module files into `moddir`.  Returns list of injection points."""
    root = os.path.join(scratch, "repo", crate)
    hostp = os.path.join(root, host)
    line = "#[cfg(kani)] mod %s;" % modname
    src = read(hostp)
    if line not in src:
        write(hostp, src.rstrip("\n") + "\n" + line + "\n")
    md = os.path.join(root, moddir)
    os.makedirs(md, exist_ok=True)
    modrs = "#![allow(unused, non_snake_case, clippy::all)]\n" + extra_root
    for name in modules:
        modrs += "pub mod %s;\n" % name
        write(os.path.join(md, name + ".rs"), modules[name])
    write(os.path.join(md, "mod.rs"), modrs)
    return ["%s/%s: appended `%s`" % (crate, host, line)] + [
        "%s/%s/%s.rs (generated)" % (crate, moddir, n) for n in modules
    ]


# --------------------------------------------------------------------------------------
# Kani driver
# --------------------------------------------------------------------------------------

class HarnessResult:
    def __init__(self, name):
        self.name = name
        self.status = "missing"  # success | failed | timeout | error | missing
        self.total = 0
        self.failed_n = 0
        self.failed = []  # list of (description, location)
        self.covers_sat = 0
        self.covers_total = 0
        self.time_s = 0.0
        self.solver_s = None
        self.raw = ""

    def as_dict(self):
        return dict(name=self.name, status=self.status, total=self.total, failed=self.failed,
                    covers=[self.covers_sat, self.covers_total], time_s=self.time_s)


_RE_CHECKING = re.compile(r"^(?:Thread (\d+): )?Checking harness (\S+?)\.\.\.\s*$")
_RE_THREAD = re.compile(r"^Thread (\d+):\s*$")
_RE_FAILED_N = re.compile(r"^\s*\*\* (\d+) of (\d+) failed")
_RE_COVER = re.compile(r"^\s*\*\* (\d+) of (\d+) cover properties satisfied")
_RE_FAILED_CHECK = re.compile(r"^Failed Checks: (.*)$")
_RE_FILE = re.compile(r'^\s*File: "(.*)", line (\d+), in (.*)$')
_RE_TIME = re.compile(r"^Verification Time: ([0-9.]+)s")


def parse_kani_output(text, names):
    res = {n: HarnessResult(n) for n in names}
    cur_by_thread = {}
    cur = None
    last_fail = None
    for line in text.splitlines():
        m = _RE_CHECKING.match(line)
        if m:
            th = m.group(1) or "-"
            h = m.group(2)
            cur_by_thread[th] = h
            if th == "-":
                cur = res.setdefault(h, HarnessResult(h))
            continue
        m = _RE_THREAD.match(line)
        if m:
            h = cur_by_thread.get(m.group(1))
            cur = res.setdefault(h, HarnessResult(h)) if h else None
            last_fail = None
            continue
        if cur is None:
            continue
        cur.raw += line + "\n"
        m = _RE_FAILED_N.match(line)
        if m:
            cur.failed_n = int(m.group(1))
            cur.total = int(m.group(2))
            continue
        m = _RE_COVER.match(line)
        if m:
            cur.covers_sat = int(m.group(1))
            cur.covers_total = int(m.group(2))
            continue
        m = _RE_FAILED_CHECK.match(line)
        if m:
            d = m.group(1).strip()
            if d.startswith('"') and d.endswith('"'):
                d = d[1:-1]
            last_fail = [d, ""]
            cur.failed.append(last_fail)
            continue
        m = _RE_FILE.match(line)
        if m and last_fail is not None:
            last_fail[1] = "%s:%s in %s" % (m.group(1), m.group(2), m.group(3))
            continue
        if line.startswith("VERIFICATION:- SUCCESSFUL"):
            cur.status = "success"
        elif line.startswith("VERIFICATION:- FAILED"):
            if cur.status != "timeout":
                cur.status = "failed"
        elif "CBMC timed out" in line:
            cur.status = "timeout"
        elif line.startswith("CBMC failed") or "out of memory" in line.lower():
            if cur.status == "missing":
                cur.status = "error"
        m = _RE_TIME.match(line)
        if m:
            cur.time_s = float(m.group(1))
    for r in res.values():
        if r.status == "failed" and not r.failed and r.failed_n == 0:
            r.status = "error" if "timed out" not in r.raw else "timeout"
        if "timed out" in r.raw:
            r.status = "timeout"
    return res


def kani_run(scratch, crate, harnesses, features=None, jobs=8, harness_timeout=600, wall_timeout=None,
             extra=None, no_default_features=False, stubbing=False, playback=False, logname=None):
    """Run `cargo kani` once in <scratch>/repo/<crate> for the exact harness names given.
    Returns (results: {name: HarnessResult}, meta dict)."""
    cwd = os.path.join(scratch, "repo", crate)
    cmd = ["cargo", "kani", "--output-format", "terse", "-Z", "unstable-options",
           "--harness-timeout", "%ds" % harness_timeout, "--exact"]
    jsonp = os.path.join(scratch, "kani-%s-%s.json" % (crate, sha(" ".join(harnesses))))
    cmd += ["--export-json", jsonp]
    if jobs and jobs > 1 and not playback:
        cmd += ["-j", str(jobs)]
    if features:
        cmd += ["--features", " ".join(features)]
    if no_default_features:
        cmd += ["--no-default-features"]
    if stubbing:
        cmd += ["-Z", "stubbing"]
    if playback:
        cmd += ["-Z", "concrete-playback", "--concrete-playback=print"]
    if extra:
        cmd += list(extra)
    for h in harnesses:
        cmd += ["--harness", h]
    if wall_timeout is None:
        n = max(1, len(harnesses))
        wall_timeout = 900 + harness_timeout * ((n + max(1, jobs) - 1) // max(1, jobs)) + 60
    t0 = time.time()
    log("[kani] %s: %d harness(es), -j%s, per-harness timeout %ss" % (crate, len(harnesses), jobs, harness_timeout))
    try:
        p = subprocess.run(cmd, cwd=cwd, env=ENV, stdout=subprocess.PIPE, stderr=subprocess.STDOUT,
                           timeout=wall_timeout, text=True, errors="replace")
        out = p.stdout
        rc = p.returncode
    except subprocess.TimeoutExpired as e:
        out = (e.stdout or b"")
        if isinstance(out, bytes):
            out = out.decode(errors="replace")
        out += "\n[verif] wall-clock timeout after %ss\n" % wall_timeout
        rc = -9
        subprocess.run(["pkill", "-f", scratch], check=False)
    wall = time.time() - t0
    if logname:
        write(os.path.join(VERIF, "logs", logname), out)
    res = parse_kani_output(out, harnesses)
    meta = dict(cmd=" ".join(cmd[:12]) + " … (%d --harness flags)" % len(harnesses), wall_s=wall, rc=rc,
                compile_error=("error: could not compile" in out or "error[E" in out), out=out)
    # solver statistics from the JSON export
    try:
        j = json.load(open(jsonp))
        for c in j.get("cbmc", []):
            st = c.get("cbmc_stats") or {}
            r = res.get(c.get("harness_id"))
            if r is not None and st:
                r.solver_s = (st.get("runtime_decision_procedure_s") or 0.0)
                r.symex_s = st.get("runtime_symex_s")
        meta["tools"] = j.get("tools")
    except Exception:
        pass
    return res, meta


_RE_PLAYBACK = re.compile(
    r"Concrete playback unit test for `([^`]+)`:\s*```\s*(.*?)```", re.S)


def extract_playback_tests(out):
    """Returns list of (harness, check-comment, test source)."""
    tests = []
    for m in _RE_PLAYBACK.finditer(out):
        src = m.group(2)
        cm = re.search(r"/// Check for `(\w+)`: (.*)", src)
        tests.append((m.group(1), cm.group(2).strip().strip('"') if cm else "", src))
    return tests


def kani_playback_run(scratch, crate, features, test_filter, timeout=900):
    cwd = os.path.join(scratch, "repo", crate)
    cmd = ["cargo", "kani", "playback", "-Z", "concrete-playback"]
    if features:
        cmd += ["--features", " ".join(features)]
    cmd += ["--", test_filter]
    p = subprocess.run(cmd, cwd=cwd, env=ENV, stdout=subprocess.PIPE, stderr=subprocess.STDOUT,
                       timeout=timeout, text=True, errors="replace")
    return p.returncode, p.stdout


# --------------------------------------------------------------------------------------
# Verus driver (single-file mode only; cargo verus cannot resolve vstd offline)
# --------------------------------------------------------------------------------------

def verus_run(path, timeout=600, extra=None):
    cmd = ["verus", path, "--output-json", "--time"] + list(extra or [])
    t0 = time.time()
    try:
        p = subprocess.run(cmd, stdout=subprocess.PIPE, stderr=subprocess.PIPE, timeout=timeout, text=True,
                           errors="replace", env=ENV, cwd=os.path.dirname(path))
        out, err, rc = p.stdout, p.stderr, p.returncode
    except subprocess.TimeoutExpired:
        return dict(ok=False, timeout=True, verified=0, errors=0, stderr="timeout", wall_s=time.time() - t0,
                    failed_fns=[], smt_s=0.0, rc=-9, cmd=" ".join(cmd))
    j = {}
    try:
        j = json.loads(out[out.index("{"):])
    except Exception:
        pass
    vr = j.get("verification-results", {})
    tm = j.get("times-ms", {})
    smt_ms = 0
    try:
        smt_ms = tm.get("smt", {}).get("total", 0) if isinstance(tm.get("smt"), dict) else 0
    except Exception:
        pass
    failed = []
    # error blocks in stderr: "error: postcondition not satisfied" followed by --> file:line
    blocks = re.split(r"\n(?=error)", err)
    for b in blocks:
        if not b.startswith("error"):
            continue
        first = b.splitlines()[0]
        loc = re.search(r"--> (\S+?):(\d+):(\d+)", b)
        failed.append(dict(msg=first, line=int(loc.group(2)) if loc else 0, text=b[:2000]))
    # per-function verdicts from the JSON (robust against message wording)
    fn_results = {}
    fn_time = {}
    try:
        for m in tm.get("smt", {}).get("smt-run-module-times", []):
            for f in m.get("function-breakdown", []):
                n = f["function"].split("::")[-1]
                fn_results[n] = bool(f.get("success")) and fn_results.get(n, True)
                fn_time[n] = fn_time.get(n, 0) + f.get("time-micros", 0) / 1e6
    except Exception:
        pass
    return dict(ok=(rc == 0 and vr.get("errors", 1) == 0 and vr.get("success", False)),
                timeout=False, verified=vr.get("verified", 0), errors=vr.get("errors", 0),
                vir_error=bool(vr.get("encountered-vir-error")) or not vr,
                stderr=err, failed=failed, fn_results=fn_results, fn_time=fn_time,
                wall_s=time.time() - t0, smt_s=smt_ms / 1000.0, rc=rc,
                cmd=" ".join(cmd), json=j)


def fn_at_line(src, line):
    """Name of the fn enclosing 1-based `line` in a Rust/Verus source text."""
    name = None
    for i, l in enumerate(src.splitlines(), 1):
        m = re.match(r"\s*(?:pub\s+)?(?:open\s+|closed\s+)?(?:proof\s+|exec\s+|spec\s+)?(?:const\s+)?fn\s+(\w+)", l)
        if m:
            name = m.group(1)
        if i >= line:
            break
    return name


# --------------------------------------------------------------------------------------
# Extraction of real source text
# --------------------------------------------------------------------------------------

class AnchorLost(Exception):
    pass


def match_brace(src, open_idx):
    """index just after the brace matching src[open_idx] == '{' (skips strings/comments/chars)."""
    assert src[open_idx] == "{"
    i = open_idx
    depth = 0
    n = len(src)
    while i < n:
        c = src[i]
        if c == "/" and src.startswith("//", i):
            j = src.find("\n", i)
            i = n if j < 0 else j
            continue
        if c == "/" and src.startswith("/*", i):
            j = src.find("*/", i)
            i = n if j < 0 else j + 2
            continue
        if c == '"':
            i += 1
            while i < n and src[i] != '"':
                if src[i] == "\\":
                    i += 1
                i += 1
            i += 1
            continue
        if c == "'":
            # char literal or lifetime
            m = re.match(r"'(\\.[^']*|[^\\'])'", src[i:i + 12])
            if m:
                i += m.end()
                continue
        if c == "{":
            depth += 1
        elif c == "}":
            depth -= 1
            if depth == 0:
                return i + 1
        i += 1
    raise AnchorLost("unbalanced braces")


def extract_item(src, header_regex, what="item"):
    """Returns (start, end, text) of the first item whose header matches; header must end before '{'."""
    m = re.search(header_regex, src, re.M)
    if not m:
        raise AnchorLost("anchor lost: %s (%s)" % (what, header_regex))
    ob = src.find("{", m.end() - 1)
    if ob < 0:
        raise AnchorLost("anchor lost (no body): %s" % what)
    end = match_brace(src, ob)
    return m.start(), end, src[m.start():end]


# --------------------------------------------------------------------------------------
# Run book-keeping, findings, evidence
# --------------------------------------------------------------------------------------

def load_known_findings():
    p = os.path.join(VERIF, "KNOWN_FINDINGS.json")
    if not os.path.exists(p):
        return []
    return json.load(open(p)).get("findings", [])


class Run:
    def __init__(self, prop, tier, seed):
        self.prop = prop
        self.tier = tier
        self.seed = seed
        self.t0 = time.time()
        self.contracts = []       # dicts: name, kind, engine, functions, status, obligations, discharged, ...
        self.refuted = []         # dicts: obligation, contract, location, engine, detail, replay
        self.undecided = []       # dicts
        self.assumptions = []
        self.trusted = []
        self.functions = set()
        self.injections = []
        self.checker_cmds = []
        self.notes = []
        self.samples = []
        self.extra = {}
        self.canaries_expected = 0
        self.canaries_refuted = 0
        self.solver_s = 0.0
        self.backends = set()
        self.scan_counts = {}

    def scan(self, name, text):
        """mechanical scan of a generated / hand-written contract file for assumption-introducing constructs"""
        pats = {"kani::assume": r"kani::assume\(", "kani::stub": r"#\[kani::stub\(", "mem::forget": r"mem::forget\(",
                "verus requires-hypotheses (lemma preconditions)": r"\brequires\b", "verus uninterp": r"\buninterp\b",
                "verus external_body/assume_specification/admit/assume": r"external_body|assume_specification|\badmit\(|\bassume\("}
        for k, p in pats.items():
            n = len(re.findall(p, text))
            if n:
                self.scan_counts[k] = self.scan_counts.get(k, 0) + n

    # ---- Kani results ----------------------------------------------------------------
    def absorb_kani(self, results, specs, meta, crate):
        """specs: {harness_name: dict(kind='complete'|'bounded', bound=str, functions=[..], canary=bool,
                                       props=[ids whose clauses this harness carries], default_prop=id)}"""
        self.backends.add("Kani 0.68.0 / CBMC 6.11.0 / CaDiCaL")
        self.checker_cmds.append(meta["cmd"])
        if meta.get("compile_error"):
            self.undecided.append(dict(contract="<build of %s>" % crate, reason="scratch crate failed to compile under Kani",
                                       detail=meta["out"][-3000:]))
            return
        for name, sp in specs.items():
            r = results.get(name) or HarnessResult(name)
            short = short_name(name)
            if sp.get("canary"):
                self.canaries_expected += 1
                if r.status == "failed" and any(d.startswith("CANARY") for d, _ in r.failed):
                    self.canaries_refuted += 1
                else:
                    self.undecided.append(dict(contract=short, reason="vacuity canary was not refuted (status %s)" % r.status))
                continue
            if r.solver_s:
                self.solver_s += r.solver_s
            for f in sp.get("functions", []):
                self.functions.add(f)
            c = dict(name=short, crate=crate, kind=sp.get("kind", "complete"), bound=sp.get("bound"), engine="kani",
                     status=r.status, obligations=0, discharged=0, time_s=r.time_s, covers=[r.covers_sat, r.covers_total])
            self.contracts.append(c)
            if r.status in ("timeout", "error", "missing"):
                self.undecided.append(dict(contract=short, reason="verifier gave no verdict (%s)" % r.status,
                                           detail=r.raw[-1500:]))
                continue
            mine = []
            other = 0
            other_prop = 0   # failed checks that belong to another property's clauses in a shared harness
            only_tool = True
            # KNOWNSIG[<obligation>]:... is asserted only on inputs where <obligation> is violated and states what the
            # *recorded* defect computes; if it fails, the code violates <obligation> in a way that is not the recorded one
            sig_obls = {}
            for d, loc in r.failed:
                m = re.match(r"^KNOWNSIG\[([^\]]+)\]", d)
                if m:
                    sig_obls[m.group(1)] = (d, loc)
            n_sig_failed = 0
            for d, loc in r.failed:
                cls, pid = classify_failed_check(d, sp.get("default_prop", self.prop))
                if cls == "sig":
                    continue
                if cls == "tool":
                    self.undecided.append(dict(contract=short, reason="bound/tool limit: " + d, location=loc))
                    other += 1
                    continue
                only_tool = False
                if pid != self.prop:
                    other += 1
                    other_prop += 1
                    continue
                mine.append((d, loc))
            # obligations carried for *this* property: all checks of the harness except clauses named for others
            # KNOWNSIG:* assertions are diagnostics that characterise a recorded finding; they are not obligations
            c["obligations"] = r.total - len(sig_obls) - other_prop
            c["discharged"] = r.total - r.failed_n
            if r.status == "success" and r.covers_total and r.covers_sat < r.covers_total:
                self.undecided.append(dict(contract=short, reason="vacuity: %d of %d cover properties unsatisfiable"
                                           % (r.covers_total - r.covers_sat, r.covers_total)))
            for obl, (d, loc) in sig_obls.items():
                if re.match(r"^(C\d\d):", obl) and obl.split(":")[0] == self.prop and not any(obligation_name(x, l) == obl for x, l in mine):
                    mine.append((obl, loc))
            for d, loc in mine:
                on = obligation_name(d, loc)
                self.refuted.append(dict(obligation=on, description=d, contract=short,
                                         harness=name, crate=crate, location=loc, engine="kani",
                                         kind=sp.get("kind", "complete"), sig_violation=(on in sig_obls)))
            if r.failed_n and not r.failed:
                self.undecided.append(dict(contract=short, reason="failed checks reported without descriptions"))

    # ---- Verus results ---------------------------------------------------------------
    def absorb_verus(self, vr, path, fn_specs, src):
        """fn_specs: {fn_name: dict(obligation='Cxx:name', functions=[...], canary=bool, kind=..)}.
        Verdicts are per function, from Verus' JSON; stderr is kept as the verifier's reason."""
        self.backends.add("Verus 0.2026.09.13 / Z3")
        self.scan(os.path.basename(path), src)
        self.checker_cmds.append(vr["cmd"].replace(os.path.dirname(path) + "/", ""))
        self.solver_s += vr.get("smt_s", 0.0)
        if vr.get("timeout"):
            self.undecided.append(dict(contract=os.path.basename(path), reason="verus timeout"))
            return
        fr = vr.get("fn_results", {})
        if vr.get("vir_error") or (vr["rc"] != 0 and not any(v is False for v in fr.values())):
            self.undecided.append(dict(contract=os.path.basename(path),
                                       reason="verus rejected the file (unsupported construct / lost anchor / syntax)",
                                       detail=vr["stderr"][:3000]))
            return
        by_fn = {}
        for f in vr["failed"]:
            fn = fn_at_line(src, f["line"]) if f["line"] else None
            if fn:
                by_fn.setdefault(fn, []).append(f)
        for fn, sp in fn_specs.items():
            ok = fr.get(fn)
            if sp.get("canary"):
                self.canaries_expected += 1
                if ok is False:
                    self.canaries_refuted += 1
                else:
                    self.undecided.append(dict(contract=fn, reason="vacuity canary was not refuted by Verus"))
                continue
            for f in sp.get("functions", []):
                self.functions.add(f)
            if ok is None:
                self.undecided.append(dict(contract=fn, reason="verus reported no verdict for this function (lost anchor?)"))
                continue
            texts = by_fn.get(fn, [])
            rl = any(re.search(r"rlimit|resource limit|timed out", t["text"]) for t in texts)
            c = dict(name=fn, kind=sp.get("kind", "complete"), bound=sp.get("bound"), engine="verus",
                     status="success" if ok else ("timeout" if rl else "failed"),
                     obligations=1, discharged=1 if ok else 0, time_s=vr.get("fn_time", {}).get(fn, 0.0))
            self.contracts.append(c)
            if not ok and rl:
                self.undecided.append(dict(contract=fn, reason="verus rlimit/timeout", detail=texts[0]["text"][:500]))
            elif not ok:
                self.refuted.append(dict(obligation=sp.get("obligation", self.prop + ":" + fn),
                                         description=(texts[0]["msg"] if texts else "verification failed"),
                                         contract=fn, harness=fn, location=("line %d" % texts[0]["line"]) if texts else "",
                                         engine="verus", kind=sp.get("kind", "complete"),
                                         detail="\n".join(x["text"] for x in texts)[:4000]))
        for fn, ok in fr.items():
            if ok is False and fn not in fn_specs:
                self.undecided.append(dict(contract=fn, reason="verus failure in a helper that is not a registered contract",
                                           detail=(by_fn.get(fn) or [dict(text="")])[0]["text"][:1500]))

    # ---- finish ------------------------------------------------------------------------
    def finish(self, replay_hook=None, level="proof"):
        known = [k for k in load_known_findings() if k.get("property") == self.prop and k.get("status") == "open"]
        lines = []
        new = []
        seen = set()
        for r in self.refuted:
            key = (r["contract"], r["obligation"])
            if key in seen:
                prev = next(x for x in self.refuted if (x["contract"], x["obligation"]) == key)
                r["known"] = prev.get("known", False)
                continue
            seen.add(key)
            k = next((k for k in known if known_matches(k, r)), None)
            if k:
                l = "KNOWN-FINDING: property=%s %s" % (self.prop, k.get("what", r["obligation"]))
                if "contract_regex" in k:
                    l += " [site: %s]" % r["contract"]
                lines.append(l)
                r["known"] = True
            else:
                new.append(r)
        viol_lines = []
        if new and replay_hook:
            try:
                replay_hook(new)   # sets r["replay"], r["has_input"] where it can
            except Exception as e:  # replay generation must never hide the violation
                log("[replay] generation failed: %r" % (e,))
        for r in new:
            path = r.get("replay")
            tail = "" if r.get("has_input") else " no-failing-input-found"
            if path is None:
                path = os.path.join(VERIF, "replays", self.prop, slug(r["contract"] + "__" + r["obligation"]) + ".json")
                write(path, json.dumps(dict(property=self.prop, obligation=r["obligation"], contract=r["contract"],
                                            engine=r["engine"], verifier_output=r.get("detail", r.get("description", "")),
                                            location=r.get("location"), failing_input=None), indent=1))
                tail = " no-failing-input-found"
            r["replay"] = path
            viol_lines.append("VIOLATION property=%s replay=%s obligation=%s contract=%s%s"
                              % (self.prop, path, r["obligation"], r["contract"], tail))
        complete = [c for c in self.contracts if c["kind"] == "complete"]
        bounded = [c for c in self.contracts if c["kind"] != "complete"]
        # failed assertion instances that are recorded known findings are reported under known_findings_reported
        # and are not counted as obligations of this run
        known_keys = set((r["contract"], r["obligation"]) for r in self.refuted if r.get("known"))
        new_contracts = set(r["contract"] for r in new)
        excluded = 0
        for c in complete:
            if c["status"] == "failed" and c["name"] not in new_contracts and any(k[0] == c["name"] for k in known_keys):
                excluded += c["obligations"] - c["discharged"]
        obl = sum(c["obligations"] for c in complete if c["status"] in ("success", "failed")) - excluded
        dis = sum(c["discharged"] for c in complete if c["status"] in ("success", "failed"))
        wall = time.time() - self.t0
        vac_ok = (self.canaries_expected == self.canaries_refuted)
        ev = dict(
            property_id=self.prop, tier=self.tier, seed=self.seed, level=level,
            coverage=dict(
                obligations=obl, discharged=dis,
                checker_cmd="; ".join(sorted(set(self.checker_cmds)))[:2000] or "n/a",
                trusted_base=sorted(set(self.trusted)),
                contracts=len(complete),
                contracts_discharged=sum(1 for c in complete if c["status"] == "success"),
                functions_under_contract=sorted(self.functions),
                backends=sorted(self.backends),
                solver_time_s=round(self.solver_s, 3),
                bounded_checks=[dict(name=c["name"], bound=c.get("bound"), status=c["status"],
                                     checks=c["obligations"], passed=c["discharged"]) for c in bounded],
                bounded_note="bounded checks are stand-ins with the stated bound; they are not included in obligations/discharged",
                undecided=self.undecided[:200],
                refuted=[dict((k, v) for k, v in r.items() if k != "detail") for r in self.refuted][:200],
                known_findings_reported=[l for l in lines],
                vacuity=dict(canaries_expected=self.canaries_expected, canaries_refuted=self.canaries_refuted,
                             covers=[sum(c.get("covers", [0, 0])[0] for c in self.contracts),
                                     sum(c.get("covers", [0, 0])[1] for c in self.contracts)]),
                injection_points=self.injections,
                assumption_scan=dict(self.scan_counts, note="occurrences in the contract files of this run; every kani::assume is a stated precondition "
                                     "(input ranges / shapes), every stub is listed under assumptions, mem::forget only skips drop glue of results"),
                contracts_list=[dict(name=c["name"], kind=c["kind"], engine=c["engine"], status=c["status"], checks=c["obligations"],
                                     time_s=round(c.get("time_s") or 0, 1)) for c in self.contracts[:400]],
                samples=self.samples[:40] or [c["name"] for c in self.contracts[:20]],
                notes=self.notes,
                exhaustive=False,
            ),
            assumptions=sorted(set(self.assumptions)),
            wall_s=round(wall, 2),
            violations=len(new),
        )
        ev["coverage"].update(self.extra)
        write(os.path.join(VERIF, "evidence", self.prop + ".json"), json.dumps(ev, indent=1))
        for l in lines:
            print(l)
        for l in viol_lines:
            print(l)
        summ = "[%s %s] contracts=%d (complete %d, bounded %d) obligations=%d discharged=%d refuted=%d (new %d) undecided=%d wall=%.0fs" % (
            self.prop, self.tier, len(self.contracts), len(complete), len(bounded), obl, dis, len(self.refuted), len(new),
            len(self.undecided), wall)
        print(summ)
        if new:
            return 1
        if self.undecided or not vac_ok or not self.contracts or obl == 0:
            for u in self.undecided[:30]:
                print("UNDECIDED: %s: %s" % (u.get("contract"), u.get("reason")))
            if not self.contracts or obl == 0:
                print("UNDECIDED: no obligations were generated")
            return 2
        return 0


def known_matches(k, r):
    """A recorded finding is identified by property + contract (exact or regex) + obligation and, where given, by a
    behavioural signature: a KNOWNSIG:* diagnostic assertion in the same contract that states exactly what the
    recorded defect computes. If that diagnostic fails too, the code misbehaves in some *other* way and the
    refutation is reported as a new violation."""
    if k.get("obligation") != r["obligation"]:
        return False
    if "contract" in k and k["contract"] != r["contract"]:
        return False
    if "contract_regex" in k and not re.search(k["contract_regex"], r["contract"]):
        return False
    if "contract" not in k and "contract_regex" not in k:
        return False
    if r.get("sig_violation"):
        return False
    return True


def short_name(harness):
    """contract name used in evidence / known findings: the harness path without the injected module prefix;
    a host-module path (C20: extended::<ver>::trigger) and nested harness modules (C14: family::vN) are kept"""
    if "verif_kani::" in harness:
        pre, rest = harness.split("verif_kani::", 1)
        tail = rest.split("::", 1)[1] if "::" in rest else rest
        pre = pre.strip(":").replace("::", "_")
        return (pre + "__" if pre else "") + tail.replace("::", "__")
    return harness.split("::")[-1]


def slug(s):
    return re.sub(r"[^A-Za-z0-9_.-]+", "_", s)[:150]


_TOOL_PAT = re.compile(
    r"unwinding assertion|is not currently supported by Kani|not supported|unsupported|recursion unwinding|"
    r"reached unimplemented|foreign function|caller_location", re.I)


def classify_failed_check(desc, default_prop):
    m = re.match(r"^(C\d\d):", desc)
    if m:
        return "named", m.group(1)
    if desc.startswith("CANARY"):
        return "canary", None
    if desc.startswith("KNOWNSIG["):
        return "sig", None
    if _TOOL_PAT.search(desc):
        return "tool", None
    return "builtin", default_prop


def obligation_name(desc, loc):
    if re.match(r"^C\d\d:", desc):
        return desc.split(" ")[0] if " " not in desc[:60] else desc
    fn = loc.rsplit(" in ", 1)[-1] if " in " in loc else loc
    return "builtin:%s@%s" % (slug(desc)[:60], slug(fn)[:80])


# --------------------------------------------------------------------------------------
# Generic Kani batch execution + replay generation / execution
# --------------------------------------------------------------------------------------

class Batch:
    """One `cargo kani` invocation: a crate, its features, and harness specs.
    modules: {module_name: rust source} injected under <crate>/src/verif_kani/ ."""

    def __init__(self, crate, features, modules, specs, stubbing=False, jobs=8, harness_timeout=600,
                 host="src/lib.rs", moddir="src/verif_kani", modname="verif_kani", prefix="verif_kani", extra=None,
                 pre_inject=None, more_injections=None):
        self.crate = crate
        self.features = features
        self.modules = modules
        self.specs = specs
        self.stubbing = stubbing
        self.jobs = jobs
        self.harness_timeout = harness_timeout
        self.host = host
        self.moddir = moddir
        self.modname = modname
        self.prefix = prefix
        self.extra = extra
        self.pre_inject = pre_inject  # callable(scratch) for extra scratch-only edits (e.g. [patch] of wow_srp)
        # further harness modules hosted by other module files of the same crate (needed where the items under
        # contract are private to a module): list of dict(host=, moddir=, modname=, modules={})
        self.more_injections = more_injections or []


def run_batches(run, scratch, batches, log_prefix=None):
    for i, b in enumerate(batches):
        if b.pre_inject:
            run.injections += b.pre_inject(scratch) or []
        for mname, mtext in list(b.modules.items()) + [(k, v) for inj in b.more_injections for k, v in inj["modules"].items()]:
            run.scan(mname, mtext)
        if b.modules:
            run.injections += inject(scratch, b.crate, b.modules, host=b.host, moddir=b.moddir, modname=b.modname)
        for inj in b.more_injections:
            run.injections += inject(scratch, b.crate, inj["modules"], host=inj["host"], moddir=inj["moddir"], modname=inj.get("modname", "verif_kani"))
        names = list(b.specs.keys())
        if not names:
            continue
        res, meta = kani_run(scratch, b.crate, names, features=b.features, jobs=b.jobs,
                             harness_timeout=b.harness_timeout, stubbing=b.stubbing, extra=b.extra,
                             logname=("%s-%s-%d.log" % (run.prop, run.tier, i)))
        # cargo-kani aborts the whole invocation when one of its helper processes is killed (e.g. by the kernel under
        # memory pressure); harnesses without any verdict are re-run, with fewer jobs, at most twice
        jobs = b.jobs
        for attempt in range(2):
            missing = [n for n in names if res[n].status == "missing"]
            if not missing or meta.get("compile_error"):
                break
            jobs = max(2, jobs // 2)
            log("[kani] %d harness(es) without verdict (driver aborted); re-running them with -j%d" % (len(missing), jobs))
            res2, meta2 = kani_run(scratch, b.crate, missing, features=b.features, jobs=jobs,
                                   harness_timeout=b.harness_timeout, stubbing=b.stubbing, extra=b.extra,
                                   logname=("%s-%s-%d-retry%d.log" % (run.prop, run.tier, i, attempt + 1)))
            res.update(res2)
        run.absorb_kani(res, b.specs, meta, b.crate)


def make_kani_replay_hook(run, scratch, batches, max_harnesses=12):
    """Re-runs the refuted harnesses (one cargo-kani invocation per batch) with concrete playback and writes
    one replay file per refuted obligation."""
    def hook(refuted):
        todo = [r for r in refuted if r["engine"] == "kani"]
        for b in batches:
            mine = [r for r in todo if r["harness"] in b.specs]
            if not mine:
                continue
            hs = []
            for r in mine:
                if r["harness"] not in hs and len(hs) < max_harnesses:
                    hs.append(r["harness"])
            res, meta = kani_run(scratch, b.crate, hs, features=b.features, jobs=1,
                                 harness_timeout=max(b.harness_timeout, 600), stubbing=b.stubbing, extra=b.extra, playback=True)
            tests = extract_playback_tests(meta["out"])
            for r in mine:
                pick = None
                for h, chk, src in tests:
                    if h == r["harness"] and (r["description"] in chk or (chk and chk in r["description"])):
                        pick = src
                        break
                if pick is None:
                    # Kani emits one playback test per failed check it could concretise; fall back to another failing
                    # input of the same contract (it violates a sibling clause of the same obligation set)
                    for h, chk, src in tests:
                        if h == r["harness"] and "Check for `cover`" not in src:
                            pick = src
                            break
                vals = re.findall(r"^\s*//\s*(.+)$\n\s*vec!\[([^\]]*)\]", pick or "", re.M)
                mod = r["harness"].split("::")[-2] if "::" in r["harness"] else None
                path = os.path.join(VERIF, "replays", run.prop, slug(r["contract"] + "__" + r["obligation"]) + ".json")
                write(path, json.dumps(dict(
                    property=run.prop, obligation=r["obligation"], description=r["description"], contract=r["contract"],
                    harness=r["harness"], crate=b.crate, features=b.features, module=mod, engine="kani",
                    location=r.get("location"),
                    failing_input=[dict(value=v.strip(), bytes=[int(x) for x in bs.replace(" ", "").split(",") if x]) for v, bs in vals] if pick else None,
                    playback_test=pick,
                    verifier_output=(res[r["harness"]].raw[:3000] if r["harness"] in res else ""),
                    how="./check %s --replay %s  (injects the contract module and this #[test] into a scratch copy of /repo's current tree "
                        "and runs `cargo kani playback`: the real functions execute natively on the concrete values)" % (run.prop, path),
                ), indent=1))
                r["replay"] = path
                r["has_input"] = bool(pick)
    return hook


def replay_kani(prop, path, batches_for_scratch):
    """Re-executes a recorded counterexample against the real code. Returns exit code (1 = reproduces)."""
    j = json.load(open(path))
    if j.get("engine") != "kani" or not j.get("playback_test"):
        print("replay: obligation %s (contract %s) has no concrete input; verifier output follows\n%s"
              % (j.get("obligation"), j.get("contract"), j.get("verifier_output", "")))
        print("VIOLATION property=%s replay=%s no-failing-input-found" % (prop, path))
        return 1
    scratch = make_scratch()
    try:
        batches = batches_for_scratch(scratch)
        b = next((b for b in batches if j["harness"] in b.specs), None)
        if b is None:
            print("replay: harness %s is no longer generated" % j["harness"])
            return 2
        if b.pre_inject:
            b.pre_inject(scratch)
        hpath = j["harness"].split("::")
        prefix = "::".join(hpath[:-2])
        injs = [dict(host=b.host, moddir=b.moddir, modname=b.modname, modules=dict(b.modules), prefix=b.prefix)] if b.modules else []
        injs += [dict(i, modules=dict(i["modules"])) for i in b.more_injections]
        for inj in injs:
            if inj.get("prefix", "verif_kani") == prefix and j["module"] in inj["modules"]:
                inj["modules"][j["module"]] += "\n" + j["playback_test"] + "\n"
            inject(scratch, b.crate, inj["modules"], host=inj["host"], moddir=inj["moddir"], modname=inj.get("modname", "verif_kani"))
        tn = re.search(r"fn (kani_concrete_playback_\w+)", j["playback_test"]).group(1)
        rc, out = kani_playback_run(scratch, b.crate, b.features, tn)
        print(out[-4000:])
        if "test result: FAILED" in out:
            print("replay: the real code fails obligation %s on the recorded input" % j["obligation"])
            print("VIOLATION property=%s replay=%s" % (prop, path))
            return 1
        if "test result: ok" in out:
            print("replay: recorded input no longer violates %s on the current tree" % j["obligation"])
            return 0
        return 2
    finally:
        drop_scratch(scratch)
