"""Scratch-only substitution of the wow_srp dependency by *its own real source* (copied from the
cargo registry on every run) with `#[cfg(kani)]` constructors/state accessors appended.

Why: the header cipher halves can only be constructed through ProofSeed (thread RNG) and a SHA-1 proof,
both unsupported by Kani.  The cipher code itself (vanilla/tbc xor-add stream, wrath RC4) is plain Rust and
is verified as it is; what is skipped is only the key derivation in `new` (HMAC-SHA1, RC4 KSA, drop-1024):
the state after construction is taken to be arbitrary (a superset of the reachable states) and equal on both peers.
Nothing of wow_srp's executable text is changed; the appended items are listed in evidence."""
import glob
import os
import shutil
from lib import vlib

APPEND = {
    "src/vanilla_header/encrypt.rs": """
#[cfg(kani)]
impl EncrypterHalf {
    pub fn verif_new(session_key: [u8; SESSION_KEY_LENGTH as usize], index: u8, previous_value: u8) -> Self {
        Self { session_key, index, previous_value }
    }
    pub fn verif_state(&self) -> ([u8; SESSION_KEY_LENGTH as usize], u8, u8) {
        (self.session_key, self.index, self.previous_value)
    }
}
""",
    "src/vanilla_header/decrypt.rs": """
#[cfg(kani)]
impl DecrypterHalf {
    pub fn verif_new(session_key: [u8; SESSION_KEY_LENGTH as usize], index: u8, previous_value: u8) -> Self {
        Self { session_key, index, previous_value }
    }
    pub fn verif_state(&self) -> ([u8; SESSION_KEY_LENGTH as usize], u8, u8) {
        (self.session_key, self.index, self.previous_value)
    }
}
""",
    "src/tbc_header/encrypt.rs": """
#[cfg(kani)]
impl EncrypterHalf {
    pub fn verif_new(key: [u8; PROOF_LENGTH as usize], index: u8, previous_value: u8) -> Self {
        Self { key, index, previous_value }
    }
    pub fn verif_state(&self) -> ([u8; PROOF_LENGTH as usize], u8, u8) {
        (self.key, self.index, self.previous_value)
    }
}
""",
    "src/tbc_header/decrypt.rs": """
#[cfg(kani)]
impl DecrypterHalf {
    pub fn verif_new(key: [u8; PROOF_LENGTH as usize], index: u8, previous_value: u8) -> Self {
        Self { key, index, previous_value }
    }
    pub fn verif_state(&self) -> ([u8; PROOF_LENGTH as usize], u8, u8) {
        (self.key, self.index, self.previous_value)
    }
}
""",
    "src/wrath_header/inner_crypto/rc4.rs": """
#[cfg(kani)]
impl Rc4 {
    pub(crate) fn verif_new(state: [u8; 256], i: u8, j: u8) -> Self {
        Self { state, i, j }
    }
    pub(crate) fn verif_state(&self) -> ([u8; 256], u8, u8) {
        (self.state, self.i, self.j)
    }
    /// Abstract stream cipher used as `#[kani::stub]` for `apply_keystream` in the message-level contracts:
    /// keystream byte t is state[i+t+1] (the symbolic S-box content plays the role of an arbitrary keystream),
    /// the state advances by the number of bytes only. It satisfies the contract that the real
    /// `apply_keystream` is proved to satisfy in c05_rc4_* (keystream and next state are functions of the
    /// state and the length only; processing a+b bytes equals processing a then b bytes).
    pub(super) fn verif_stub_apply_keystream(&mut self, stream: &mut [u8]) {
        for s in stream {
            self.i = self.i.wrapping_add(1);
            *s ^= self.state[self.i as usize];
        }
    }
}
""",
    "src/wrath_header/inner_crypto/mod.rs": """
#[cfg(kani)]
impl InnerCrypto {
    pub(crate) fn verif_new(state: [u8; 256], i: u8, j: u8) -> Self {
        Self { inner: Rc4::verif_new(state, i, j) }
    }
    pub(crate) fn verif_state(&self) -> ([u8; 256], u8, u8) {
        self.inner.verif_state()
    }
}
""",
    "src/wrath_header/encrypt.rs": """
#[cfg(kani)]
impl ServerEncrypterHalf {
    pub fn verif_new(state: [u8; 256], i: u8, j: u8) -> Self {
        Self { encrypt: InnerCrypto::verif_new(state, i, j), server_header: [0_u8; SERVER_HEADER_MAXIMUM_LENGTH as usize] }
    }
    pub fn verif_state(&self) -> ([u8; 256], u8, u8) {
        self.encrypt.verif_state()
    }
}
#[cfg(kani)]
impl ClientEncrypterHalf {
    pub fn verif_new(state: [u8; 256], i: u8, j: u8) -> Self {
        Self { encrypt: InnerCrypto::verif_new(state, i, j) }
    }
    pub fn verif_state(&self) -> ([u8; 256], u8, u8) {
        self.encrypt.verif_state()
    }
}
""",
    "src/wrath_header/decrypt.rs": """
#[cfg(kani)]
impl ServerDecrypterHalf {
    pub fn verif_new(state: [u8; 256], i: u8, j: u8) -> Self {
        Self { decrypt: InnerCrypto::verif_new(state, i, j) }
    }
    pub fn verif_state(&self) -> ([u8; 256], u8, u8) {
        self.decrypt.verif_state()
    }
}
#[cfg(kani)]
impl ClientDecrypterHalf {
    pub fn verif_new(state: [u8; 256], i: u8, j: u8) -> Self {
        Self { decrypt: InnerCrypto::verif_new(state, i, j), header: [0_u8; SERVER_HEADER_MINIMUM_LENGTH as usize] }
    }
    pub fn verif_state(&self) -> ([u8; 256], u8, u8) {
        self.decrypt.verif_state()
    }
}
""",
}


def registry_src():
    c = sorted(glob.glob(os.path.expanduser("~/.cargo/registry/src/*/wow_srp-0.7.0")))
    if not c:
        raise vlib.AnchorLost("wow_srp-0.7.0 source not found in the cargo registry")
    return c[0]


def patch(scratch):
    src = registry_src()
    dst = os.path.join(scratch, "wow_srp")
    if os.path.exists(dst):
        return []
    shutil.copytree(src, dst)
    # a registry copy carries .cargo-ok / Cargo.toml.orig etc.; harmless for a path dependency
    for rel, text in APPEND.items():
        p = os.path.join(dst, rel)
        if not os.path.exists(p):
            raise vlib.AnchorLost("wow_srp file missing: " + rel)
        vlib.write(p, vlib.read(p).rstrip("\n") + "\n" + text)
    ct = os.path.join(scratch, "repo", "Cargo.toml")
    vlib.write(ct, vlib.read(ct).rstrip("\n") + '\n\n[patch.crates-io]\nwow_srp = { path = "../wow_srp" }\n')
    return ["dependency wow_srp 0.7.0: real source copied from the cargo registry to <scratch>/wow_srp, "
            "substituted via [patch.crates-io] in the scratch workspace Cargo.toml; appended #[cfg(kani)] "
            "verif_new/verif_state to: " + ", ".join(sorted(APPEND))]
