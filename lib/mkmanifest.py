#!/usr/bin/env python3
"""Writes /verif/MANIFEST.json from the table below (kept in one place so it stays valid)."""
import json
import os

HERE = os.path.dirname(os.path.dirname(os.path.abspath(__file__)))
BASELINE = json.load(open("/root/.vp/BASELINE.json"))["cmd"] if os.path.exists("/root/.vp/BASELINE.json") else "cargo test --workspace --offline"

K = "Kani 0.68 / CBMC 6.11 contracts (assume-precondition / assert-postcondition harnesses around the real functions, injected into a scratch copy of /repo's working tree)"
V = "Verus 0.2026.09.13 on functions extracted verbatim from /repo each run"

CLAIMED = {
    "C15": dict(
        technique="Kani function-contract harness on TryFrom<u32> for DateTime, full 2^32 domain, loop-free (complete)",
        text="Proof: the contract `try_from(v).is_ok() <=> spec_valid(v)` (bit-field ranges, Gregorian month length, Sakamoto weekday) "
             "and `Ok(d) => as_int()==v and accessor==bit field` is discharged by CBMC for all 2^32 values of v on the unmodified crate source; "
             "a second contract covers DateTime::new + accessors. Loop-free harness with unwinding assertions, so the proof is complete, not bounded.",
        note="Trusted: Kani's MIR->goto translation, CBMC/CaDiCaL, and the spec functions in contracts/kani/c15_datetime.rs. Display and chrono conversion are not under contract.",
        design="§4 C15"),
}

CLAIMED["C02"] = dict(
    technique="Kani contracts on size functions, header writers, default writers, opcode-enum readers and expect helpers (full header domains); Verus induction lemma for stream concatenation",
    text="Proof: for every expressible body length and opcode the real *_size()/header-writer pair produces exactly the specified header and header+body==size "
         "(all six version x direction pairs, the Wrath 2/3-byte switch included); every sync reader entry point consumes exactly header_len+announced body bytes and hands "
         "(opcode, body length, whole body) on, for every possible header (all 2^48 byte patterns); a Verus lemma lifts the per-message contracts to arbitrary concatenations. "
         "The default-writer glue is additionally executed for bodies of 0..=8 bytes (bounded stand-in, reported separately).",
    note="Trusted: Kani/CBMC, Verus/Z3, the framing spec in contracts/kani/framing_spec.rs, std Vec/io as compiled by Kani. Assumed: the per-opcode dispatcher read_opcodes is stubbed "
         "(its behaviour is C01/C04); per-container `size()==bytes written` comes from the C01 container contracts; compressed-message writer overrides (zlib) and the tokio/async-std copies are not under contract. "
         "Known findings (open): u16 overflow of server_size/client_size for the two largest expressible body lengths.",
    design="§4 C02")

CLAIMED["C05"] = dict(
    technique="Kani contracts on encrypted header getters / writers / readers / expect helpers run against the real wow_srp cipher code with symbolic cipher state; RC4 keystream contract proved separately and used as verified stub; Verus lock-step induction",
    text="Proof: for any cipher state equal on both peers (any 40/20-byte key, index and previous byte for Vanilla/TBC; any RC4 S-box, i, j for Wrath), any opcode and any expressible body length, "
         "the encrypted header getter writes exactly Enc(spec_header) and nothing else; every decrypting reader given Enc(header) for any plain header consumes header+announced body, hands (opcode, length, body) on and "
         "leaves decrypter and encrypter states equal (the inductive invariant); a Verus lemma lifts this to all finite message sequences. Wrath message-level contracts run with RC4's apply_keystream replaced by an abstract stream cipher; "
         "the contract that justifies this (mask and next state depend on state and length only; split calls compose) is itself proved on the real RC4 with a fully symbolic S-box.",
    note="Trusted: Kani/CBMC, Verus/Z3, framing spec. NOT executed: wow_srp key derivation (HMAC-SHA1, RC4 KSA, drop-1024) - states are arbitrary and assumed equal on both peers. Dispatcher read_opcodes stubbed (C01/C04). "
         "Encrypted default-writer glue executed for body lengths {0,1,2,5,8} (bounded stand-in, reported separately). Compressed-message writer overrides (zlib) and tokio/async-std copies not under contract.",
    design="§4 C05")
CLAIMED["C11"] = dict(
    technique="Kani contract per generated enum (from_int / as_int / variants / TryFrom family) against the (name,value) table read independently from the wowm; full integer domains, loop-free",
    text="Proof: for every generated enum the contract `conversion succeeds iff the numeric value (bit-reinterpreted for the same-width other-signedness source) is declared, names that enumerator, round-trips, errors report the value, variants() is the declaration order` "
         "is discharged by CBMC over the complete 8..64-bit domain of every source type (stronger than exhaustive-to-16-bit). quick: changed files + seeded sample; thorough: all 300 enums.",
    note="Trusted: Kani/CBMC; the independent wowm reader (spec/wowm.py). Variant identifiers are linked to wowm names by CamelCase conversion (X suffix for clashes); a lost anchor makes the run undecided. Display/Default not under contract.",
    design="§4 C11")
CLAIMED["C12"] = dict(
    technique="Kani contract per generated flag type (constants, is/new/set/clear per enumerator, empty/all, bit operators, From/TryFrom) over the full raw-integer domain, tables from the wowm reader",
    text="Proof: for every flag type and every raw value the set-algebra contract is discharged by CBMC (loop-free, complete). quick: changed files + seeded sample; thorough: all 56 flag types.",
    note="Trusted: Kani/CBMC; wowm reader. Known findings (open, identified by a behavioural signature so that any other misbehaviour of the same method is still reported): clear_* uses reverse_bits(); TryFrom<i8/i16/i32> into wider flags zero-extends negative values. "
         "Flag structs synthesised for conditional members inside wow_world_messages are not yet under contract.",
    design="§4 C12")
CLAIMED["C16"] = dict(
    technique="Verus on WorldVersion::{overlaps,covers} and LoginVersion::{overlaps,fullfills} extracted verbatim each run: postcondition = closed form, lemmas closed form <=> set semantics",
    text="Proof (kernel only): the version relations used for type lookup and clash detection equal intersection / inclusion of the sets of exact builds the patterns denote, for all patterns (unbounded, Z3). "
         "The rule -> exit-status behaviour of the generator process is not decided by this check.",
    note="Scope: version algebra only; error_printer / conversion / parsed_tags are outside any contract. Trusted: Verus/Z3, the set semantics `den`. Derives replaced by structural equality.",
    design="§4 C16")
CLAIMED["C20"] = dict(
    technique="Verus real-arithmetic contracts on a mechanical f32->real transliteration of is_within_square / distance_between / is_within_distance (re-cut each run); Kani contracts on AreaTrigger::contains and verify_trigger (full tables) with the float helpers stubbed",
    text="Proof modulo 'f32 treated as the reals': the transliterated bodies equal the geometric definition (rotated-box frame with 2-yard tolerance; Euclidean distance; closer-than-radius) for all real inputs; "
         "contains() requires the same map and calls the right helper with (player, trigger) in the right order, and verify_trigger returns NotFound / Success / NotInsideTrigger of the first table entry with that id, for all three expansions' full tables.",
    note="Trusted: f32 as R (rounding, NaN, infinities ignored); sin(2pi-y)=-sin y, cos(2pi-y)=cos y; sqrt facts; the transliteration table; Verus/Z3, Kani/CBMC. Verus gives no counterexample: on refutation a candidate search runs the real f32 code.",
    design="§4 C20")

_CT = ("one generated Kani contract per loop-free world message: the real read_body / write_into_vec / size_without_header against a specification walker "
       "emitted from an independent reading of the wowm definition, over every byte string up to the message's maximum size + 2")
_CTNOTE = ("Trusted: Kani/CBMC, the independent wowm reader spec/wowm.py and walker runtime contracts/kani/spec_rt.rs. Scope: the 1,065 loop-free world messages "
           "(fixed-width scalars, enums/flags, Bool, Guid, PackedGuid, DateTime, small fixed arrays, nested structs, if/else/optional) that verify within the per-harness budget "
           "(container_costs.json; the rest are listed as excluded_for_resources); quick = changed files + seeded sample. NOT decided: messages with strings, variable/endless arrays, masks, splines, "
           "compressed parts as a class (opcode dispatch is covered by the C04 slices): for 334 of them bounded concrete-shape contracts (gen/shapes.py: branch choice, counts/lengths in {0,1,2}, other bytes symbolic) are generated and run whenever the message's files differ from the baseline, "
           "but they are unmeasured on the unchanged tree and therefore never counted as proved; login messages are not covered. "
           "ParseError.kind is read through a #[cfg(kani)] accessor appended to the scratch copy of errors.rs.")
CLAIMED["C01"] = dict(
    technique=_CT + "; clauses: canonical encodings are accepted, fully consumed, and re-encode to identical bytes; hand-written primitive codecs (packed guid, cstring, bool) under their own contracts",
    text="Proof for the loop-free messages: for every byte string that the wowm definition makes a canonical encoding (all branches, all enumerators, numeric extremes), decoding succeeds, consumes the body, "
         "and re-encoding yields the same bytes with size()==bytes written. Complete per message (symbolic bytes up to max size + 2), not sampled.",
    note=_CTNOTE + " Known finding (open): Level16/Level32 values above 255 are truncated to the u8 Level type. Fixed: CMSG_GUILD_BANK_SWAP_ITEMS (tbc, wrath) could not decode its exact canonical encodings (endless array after a complex enum).",
    design="§4 C01, §13")
CLAIMED["C03"] = dict(
    technique=_CT + "; obligations = Kani's built-in checks (panic, overflow, out-of-bounds, unwinding) on the decode path for every byte string; primitive readers total for all inputs",
    text="Proof for the loop-free messages and the primitive readers: read_body returns Ok or Err for every byte string of every length up to max+2 (longer bodies are rejected by the size guard before any read); "
         "no panic, arithmetic overflow or out-of-bounds access is reachable.",
    note=_CTNOTE + " The allocation-budget clause is only covered through the primitives (sized cstring) - variable arrays are outside the loop-free class. Fixed: Bool panics, SizedCString size 0 underflow.",
    design="§4 C03, §13")
CLAIMED["C04"] = dict(
    technique=_CT + "; clauses: the walker evaluates every enum-typed member at its full wire width - an undeclared value must yield Err(Enum) reporting exactly that value; fixed-size messages reject every other length; "
              "plus Kani contracts over ALL opcode values on mechanical slices of the six read_opcodes dispatchers against the opcode tables of the wowm corpus",
    text="Proof for the loop-free messages: an enum member (incl. upcast ones, nested in structs, under conditionals) carrying an undeclared value at full wire width is rejected with an enum error reporting that value; "
         "constant-size messages accept exactly their size; every opcode not defined for the expansion and direction is rejected with an error reporting it, every defined one reaches the decoder of the message the wowm assigns to it.",
    note=_CTNOTE + " The opcode slices keep each arm's pattern and the message it names and drop the arm bodies (patterns are single integer literals, which the extractor checks). Login opcode dispatch is not covered. Fixed: upcast enums were truncated before validation (133 sites).",
    design="§4 C04, §13")
CLAIMED["C09"] = dict(
    technique="Verus: one interval obligation per generated world message (1,428) over the wowm length formula (branch selectors, optional presence, string lengths, array counts as parameters) against the size-guard literals re-read from each read_inner; Kani clause `canonical encoding never rejected with InvalidSize` on the loop-free messages; packed-guid size contract",
    text="Proof (unbounded in counts and lengths): for every message without masks/splines/compressed parts, every length the definition can produce within the frame limit lies inside the guard compiled into its decoder, "
         "and constant-size guards equal the formula; struct intervals used for arrays are proved separately (callee contracts) and the sum-of-elements step is a proved lemma.",
    note="Trusted: Verus/Z3, wowm reader. Assumed limits (read from the generator source each run): string sizes (CSTRING 256, SIZED_CSTRING 4+8000, STRING 257) and the client message buffer 10240. "
         "Skipped: 31 messages with UpdateMask/AuraMask/splines/achievement arrays/AddonArray/compressed parts. The generator's own interval code (create_sizes) and the IR/doc copies of the numbers are not under contract - the guard literals are. "
         "Known findings (open): 8 Wrath server messages with endless arrays are capped at min+65535.",
    design="§4 C09, §13")
CLAIMED["C13"] = dict(
    technique="Kani: (a) every primitive-typed generated accessor (~3,600 over three expansions) against the published update-field table with the update-mask core replaced by recording stubs; (b) bounded contracts on the hand-written core (bit bookkeeping, typed set/get, wire form, size); Verus history lemma",
    text="Accessors: proof (complete, modular) that each setter/getter addresses the table offset with the table type and that non-builder setters track dirtiness. Core: BOUNDED stand-ins (masks <= 3 blocks, one or two map entries) for array_set/reset/fill, typed round trips, written form == count + (header & dirty) blocks + present-and-dirty values, reported size == bytes written, decode(write) returns the written fields. "
         "A Verus lemma lifts the per-operation contracts to arbitrary histories (last write wins; invariant preserved).",
    note="Trusted: Kani/CBMC, Verus/Z3, the published table update-mask.md. The core contracts are bounded (CBMC does not scale to larger BTreeMaps; Verus rejects the code) and are reported as bounded, not proved. "
         "Not covered: enum/struct/index-typed accessors (unit_bytes_0/1, visible_item, skill_info, field_inv ...), UpdateMask::read kind selection. Fixed: get_shorts returned the halves swapped.",
    design="§4 C13, §13")
CLAIMED["C14"] = dict(
    technique="Kani contract per login family x protocol version on the hand-written collective conversions and read_protocol/write_protocol; the version-N value is every value decodable from symbolic bytes by version N's own reader",
    text="Proof for fixed-layout families (complete): lift-then-lower is the identity, write_protocol emits exactly the bytes of version N's writer, read_protocol accepts/rejects and consumes exactly as version N's reader and yields the lifted value. "
         "Families with strings/vectors are bounded by the buffer size and reported as bounded.",
    note="Trusted: Kani/CBMC, derived PartialEq/Clone. quick tier: fixed-layout families; thorough adds the bounded ones within budget. expect_*_message_protocol helpers and async variants not under contract.",
    design="§4 C14, §13")

NA = {
    "C06": "quantifies over delivery schedules of async readers; neither verifier handles async state machines within reach (Kani+tokio: no result in 10 min for a 4-byte message) and the chunking behaviour is a contract of tokio/async-std, not of this code",
    "C07": "a statement about every input program of a text-emitting generator; no function contract can refer to the meaning of the emitted Rust text (compiler verification); the corpus instance is C01",
    "C08": "quantifies over process runs and directory states (std::fs, hash order); no function contract expresses it, and the generator cannot complete a run in this sandbox",
    "C10": "faithfulness of a whole-program JSON output to an independent reading is a differential check, not a function contract",
    "C17": "the artefact is generated C text for Wireshark; no installed deductive verifier accepts it",
    "C18": "equality of documentation text after re-parsing; no function contract",
    "C19": "buildability under feature sets is a compilation result, not the behaviour of a function",
}
PENDING = {}


def main():
    ids = ["C%02d" % i for i in range(1, 21)]
    checks = []
    for pid in ids:
        if pid in CLAIMED:
            c = CLAIMED[pid]
            checks.append(dict(
                property_id=pid,
                quick_cmd="./check %s --tier quick" % pid,
                thorough_cmd="./check %s --tier thorough" % pid,
                evidence_file="evidence/%s.json" % pid,
                replay_cmd_template="./check %s --replay {path}" % pid,
                engine=c.get("engine", "kani+verus"),
                level_claimed=dict(category=c.get("category", "proof"), text=c["text"], design_ref=c["design"]),
                level_note=c["note"],
                technique=c["technique"],
            ))
    na = []
    for pid in ids:
        if pid in CLAIMED:
            continue
        if pid in NA:
            na.append(dict(property_id=pid, reason=NA[pid]))
        else:
            na.append(dict(property_id=pid, reason=PENDING.get(pid, "contract check designed in DESIGN.md but not yet built; not claimed until its check runs")))
    m = dict(
        version=1,
        setup_cmd="./setup.sh",
        hooks=dict(
            guard="cfg(kani) — set only by `cargo kani`, and only ever on a scratch copy of /repo; /repo itself carries no hooks",
            enable="n/a: checks rsync /repo's working tree to a scratch dir, append `#[cfg(kani)] mod verif_kani;` there and run cargo kani / verus on it",
            baseline_off_cmd=BASELINE,
            source_commits=[],
            add_only=True,
        ),
        engines=[
            dict(name="kani", path="lib/vlib.py", serves_properties=[p for p in CLAIMED], kind_free_text=K),
            dict(name="verus", path="lib/vlib.py", serves_properties=[p for p in CLAIMED], kind_free_text=V),
        ],
        checks=checks,
        notes="Contract-based deductive verification. exit 0 = all obligations discharged; exit 1 + VIOLATION = verifier refutation; exit 2 = undecided (never an alarm). See DESIGN.md.",
        not_applicable=na,
    )
    json.dump(m, open(os.path.join(HERE, "MANIFEST.json"), "w"), indent=1)
    print("MANIFEST.json: %d checks, %d not_applicable" % (len(checks), len(na)))


if __name__ == "__main__":
    main()
