#!/usr/bin/env python3
"""Writes /verif/MANIFEST.json from the table below (kept in one place so it stays valid)."""
import json
import os

HERE = os.path.dirname(os.path.dirname(os.path.abspath(__file__)))
BASELINE = json.load(open("/root/.vp/BASELINE.json"))["cmd"] if os.path.exists("/root/.vp/BASELINE.json") else "cargo test --workspace --offline"

K = "Kani 0.68 / CBMC 6.11 contracts (assume-precondition / assert-postcondition harnesses around the real functions, injected into a scratch copy of /repo's working tree)"
V = "Verus 0.2026.09.13 on functions extracted verbatim from /repo each run"

CLAIMED = {
    "C15": dict(
        technique="Kani function-contract harness on TryFrom<u32> for DateTime, full 2^32 domain, loop-free (complete)",
        text="Proof: the contract `try_from(v).is_ok() <=> spec_valid(v)` (bit-field ranges, Gregorian month length, Sakamoto weekday) "
             "and `Ok(d) => as_int()==v and accessor==bit field` is discharged by CBMC for all 2^32 values of v on the unmodified crate source; "
             "a second contract covers DateTime::new + accessors. Loop-free harness with unwinding assertions, so the proof is complete, not bounded.",
        note="Trusted: Kani's MIR->goto translation, CBMC/CaDiCaL, and the spec functions in contracts/kani/c15_datetime.rs. Display and chrono conversion are not under contract.",
        design="§4 C15"),
}

CLAIMED["C02"] = dict(
    technique="Kani contracts on size functions, header writers, default writers, opcode-enum readers and expect helpers (full header domains); Verus induction lemma for stream concatenation",
    text="Proof: for every expressible body length and opcode the real *_size()/header-writer pair produces exactly the specified header and header+body==size "
         "(all six version x direction pairs, the Wrath 2/3-byte switch included); every sync reader entry point consumes exactly header_len+announced body bytes and hands "
         "(opcode, body length, whole body) on, for every possible header (all 2^48 byte patterns); a Verus lemma lifts the per-message contracts to arbitrary concatenations. "
         "The default-writer glue is additionally executed for bodies of 0..=8 bytes (bounded stand-in, reported separately).",
    note="Trusted: Kani/CBMC, Verus/Z3, the framing spec in contracts/kani/framing_spec.rs, std Vec/io as compiled by Kani. Assumed: the per-opcode dispatcher read_opcodes is stubbed "
         "(its behaviour is C01/C04); per-container `size()==bytes written` comes from the C01 container contracts; compressed-message writer overrides (zlib) and the tokio/async-std copies are not under contract. "
         "Known findings (open): u16 overflow of server_size/client_size for the two largest expressible body lengths.",
    design="§4 C02")

NA = {
    "C06": "quantifies over delivery schedules of async readers; neither verifier handles async state machines within reach (Kani+tokio: no result in 10 min for a 4-byte message) and the chunking behaviour is a contract of tokio/async-std, not of this code",
    "C07": "a statement about every input program of a text-emitting generator; no function contract can refer to the meaning of the emitted Rust text (compiler verification); the corpus instance is C01",
    "C08": "quantifies over process runs and directory states (std::fs, hash order); no function contract expresses it, and the generator cannot complete a run in this sandbox",
    "C10": "faithfulness of a whole-program JSON output to an independent reading is a differential check, not a function contract",
    "C17": "the artefact is generated C text for Wireshark; no installed deductive verifier accepts it",
    "C18": "equality of documentation text after re-parsing; no function contract",
    "C19": "buildability under feature sets is a compilation result, not the behaviour of a function",
}
PENDING = {}


def main():
    ids = ["C%02d" % i for i in range(1, 21)]
    checks = []
    for pid in ids:
        if pid in CLAIMED:
            c = CLAIMED[pid]
            checks.append(dict(
                property_id=pid,
                quick_cmd="./check %s --tier quick" % pid,
                thorough_cmd="./check %s --tier thorough" % pid,
                evidence_file="evidence/%s.json" % pid,
                replay_cmd_template="./check %s --replay {path}" % pid,
                engine=c.get("engine", "kani+verus"),
                level_claimed=dict(category=c.get("category", "proof"), text=c["text"], design_ref=c["design"]),
                level_note=c["note"],
                technique=c["technique"],
            ))
    na = []
    for pid in ids:
        if pid in CLAIMED:
            continue
        if pid in NA:
            na.append(dict(property_id=pid, reason=NA[pid]))
        else:
            na.append(dict(property_id=pid, reason=PENDING.get(pid, "contract check designed in DESIGN.md but not yet built; not claimed until its check runs")))
    m = dict(
        version=1,
        setup_cmd="./setup.sh",
        hooks=dict(
            guard="cfg(kani) — set only by `cargo kani`, and only ever on a scratch copy of /repo; /repo itself carries no hooks",
            enable="n/a: checks rsync /repo's working tree to a scratch dir, append `#[cfg(kani)] mod verif_kani;` there and run cargo kani / verus on it",
            baseline_off_cmd=BASELINE,
            source_commits=[],
            add_only=True,
        ),
        engines=[
            dict(name="kani", path="lib/vlib.py", serves_properties=[p for p in CLAIMED], kind_free_text=K),
            dict(name="verus", path="lib/vlib.py", serves_properties=[p for p in CLAIMED], kind_free_text=V),
        ],
        checks=checks,
        notes="Contract-based deductive verification. exit 0 = all obligations discharged; exit 1 + VIOLATION = verifier refutation; exit 2 = undecided (never an alarm). See DESIGN.md.",
        not_applicable=na,
    )
    json.dump(m, open(os.path.join(HERE, "MANIFEST.json"), "w"), indent=1)
    print("MANIFEST.json: %d checks, %d not_applicable" % (len(checks), len(na)))


if __name__ == "__main__":
    main()
