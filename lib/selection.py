"""Quick-tier selection: every unit whose generated source file or defining .wowm file differs from the pinned
baseline (baseline_hashes.json) is always checked; the rest is sampled with VERIF_SEED."""
import hashlib
import json
import os
import random
from lib import vlib

_BASE = None


def file_hash(path):
    try:
        return hashlib.sha256(open(path, "rb").read()).hexdigest()[:20]
    except OSError:
        return "missing"


def baseline():
    global _BASE
    if _BASE is None:
        p = os.path.join(vlib.VERIF, "baseline_hashes.json")
        _BASE = json.load(open(p)) if os.path.exists(p) else {}
    return _BASE


def changed(relpaths):
    """True if any of the repo-relative paths differs from the baseline (or is unknown to it)."""
    b = baseline()
    for r in relpaths:
        if b.get(r) != file_hash(os.path.join(vlib.REPO, r)):
            return True
    return False


def pick(units, key_paths, tier, seed, sample, stratum=None):
    """units: list; key_paths(u) -> list of repo-relative files it depends on. Returns (selected, n_changed)."""
    if tier == "thorough":
        return list(units), sum(1 for u in units if changed(key_paths(u)))
    ch = [u for u in units if changed(key_paths(u))]
    rest = [u for u in units if not changed(key_paths(u))]
    rng = random.Random(seed)
    if stratum is None:
        rng.shuffle(rest)
        return ch + rest[:sample], len(ch)
    groups = {}
    for u in rest:
        groups.setdefault(stratum(u), []).append(u)
    out = []
    keys = sorted(groups)
    per = max(1, sample // max(1, len(keys)))
    for k in keys:
        g = groups[k]
        rng.shuffle(g)
        out += g[:per]
    return ch + out[:max(sample, len(keys))], len(ch)
