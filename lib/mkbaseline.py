#!/usr/bin/env python3
"""Pins the hashes of generated sources and wowm files of the current /repo tree (run after fix: commits)."""
import glob
import json
import os
import sys
sys.path.insert(0, os.path.dirname(os.path.dirname(os.path.abspath(__file__))))
from lib import vlib, selection as select

pats = ["wow_message_parser/wowm/**/*.wowm", "wow_world_base/src/inner/**/*.rs", "wow_login_messages/src/logon/**/*.rs",
        "wow_world_messages/src/world/**/*.rs", "wow_world_messages/src/helper/**/*.rs", "wow_login_messages/src/collective/*.rs",
        "wow_world_messages/src/util/**/*.rs", "wow_world_messages/src/manual/**/*.rs", "wow_world_base/src/manual/**/*.rs",
        "wow_world_base/src/extended/**/*.rs", "wow_world_messages/src/traits/*.rs", "wow_login_messages/src/util/*.rs",
        "wow_login_messages/src/helper/*.rs", "wowm_language/src/types/update-mask.md"]
out = {}
for p in pats:
    for f in glob.glob(os.path.join(vlib.REPO, p), recursive=True):
        out[os.path.relpath(f, vlib.REPO)] = select.file_hash(f)
json.dump(out, open(os.path.join(vlib.VERIF, "baseline_hashes.json"), "w"), indent=0, sort_keys=True)
print("pinned", len(out), "files")
