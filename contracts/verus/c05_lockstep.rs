// C05(4) — lock-step lemma (unbounded) over the per-message contracts discharged by Kani:
//   H: for every cipher state s (equal on both peers), message m and continuation `rest`:
//        (s1, w) = enc_write(s, m)                       -- encrypted writer
//        dec_read(s, w ++ rest) = (s1, m, |w|)           -- decrypting reader: same message, consumes |w|,
//                                                           and ends in the encrypter's state s1
// Conclusion: for every finite sequence of messages written with one encrypter and read with one
// decrypter that start in the same state, the reader returns the same sequence and both states are
// equal after every prefix (in particular at the end).
// The file contains no model of the code or of the cipher; S is an uninterpreted state type.
use vstd::prelude::*;
verus! {

pub struct Msg { pub opcode: int, pub body: Seq<u8> }
pub struct S { pub id: int }

pub uninterp spec fn enc_write(s: S, m: Msg) -> (S, Seq<u8>);
pub uninterp spec fn dec_read(s: S, stream: Seq<u8>) -> (S, Msg, nat);

pub open spec fn per_message_contract() -> bool {
    forall|s: S, m: Msg, rest: Seq<u8>|
        #[trigger] dec_read(s, enc_write(s, m).1 + rest) == (enc_write(s, m).0, m, enc_write(s, m).1.len())
}

pub open spec fn enc_stream(s: S, ms: Seq<Msg>) -> Seq<u8>
    decreases ms.len()
{
    if ms.len() == 0 { Seq::<u8>::empty() } else {
        enc_write(s, ms[0]).1 + enc_stream(enc_write(s, ms[0]).0, ms.drop_first())
    }
}
pub open spec fn enc_final(s: S, ms: Seq<Msg>) -> S
    decreases ms.len()
{
    if ms.len() == 0 { s } else { enc_final(enc_write(s, ms[0]).0, ms.drop_first()) }
}
pub open spec fn dec_all(s: S, stream: Seq<u8>, count: nat) -> (S, Seq<Msg>)
    decreases count
{
    if count == 0 { (s, Seq::<Msg>::empty()) } else {
        let (s1, m, c) = dec_read(s, stream);
        let (s2, tail) = dec_all(s1, stream.subrange(c as int, stream.len() as int), (count - 1) as nat);
        (s2, seq![m] + tail)
    }
}

pub proof fn lemma_lockstep(s: S, ms: Seq<Msg>)
    requires per_message_contract(),
    ensures dec_all(s, enc_stream(s, ms), ms.len()) == (enc_final(s, ms), ms),
    decreases ms.len()
{
    if ms.len() == 0 {
        assert(dec_all(s, enc_stream(s, ms), 0).1 =~= ms);
    } else {
        let m = ms[0];
        let (s1, w) = enc_write(s, m);
        let rest = enc_stream(s1, ms.drop_first());
        assert(enc_stream(s, ms) == w + rest);
        assert(dec_read(s, w + rest) == (s1, m, w.len()));
        assert((w + rest).subrange(w.len() as int, (w + rest).len() as int) =~= rest);
        lemma_lockstep(s1, ms.drop_first());
        assert(seq![m] + ms.drop_first() =~= ms);
    }
}

// vacuity canary: must be refuted (no contract assumed)
pub proof fn canary_c05_lockstep(s: S, ms: Seq<Msg>)
    ensures dec_all(s, enc_stream(s, ms), ms.len()) == (enc_final(s, ms), ms),
{
}

} // verus!
fn main() {}
