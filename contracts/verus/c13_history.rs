// C13 — history lemma over the per-operation contracts of the update-mask core (discharged, bounded, by Kani in
// c13_inners): a mask is abstracted by (present, dirty, val); every operation has the stated effect and preserves the
// invariant  dom(val) == present.  Conclusion, for every finite operation sequence: each getter returns the value last
// set for its field (or None if it was never set), and the written form lists exactly present ∩ dirty.
// This file is about the contracts; it contains no model of the code.
use vstd::prelude::*;
verus! {

pub struct Mask { pub present: Set<int>, pub dirty: Set<int>, pub val: Map<int, int> }

pub enum Op { Set { field: int, value: int }, DirtyReset, MarkFullyDirty { universe: Set<int> } }

pub open spec fn inv(m: Mask) -> bool { m.val.dom() == m.present }

// per-operation contracts (what c13_inners establishes for header_set / array_reset / array_fill_ones)
pub open spec fn apply(m: Mask, op: Op) -> Mask {
    match op {
        Op::Set { field, value } => Mask { present: m.present.insert(field), dirty: m.dirty.insert(field), val: m.val.insert(field, value) },
        Op::DirtyReset => Mask { present: m.present, dirty: Set::empty(), val: m.val },
        Op::MarkFullyDirty { universe } => Mask { present: m.present, dirty: m.dirty.union(universe).union(m.present), val: m.val },
    }
}
pub open spec fn run(m: Mask, ops: Seq<Op>) -> Mask
    decreases ops.len()
{
    if ops.len() == 0 { m } else { apply(run(m, ops.drop_last()), ops.last()) }
}
// value last set for `field` in the history (None if never set)
pub open spec fn last_set(ops: Seq<Op>, field: int) -> Option<int>
    decreases ops.len()
{
    if ops.len() == 0 { None } else {
        match ops.last() {
            Op::Set { field: f, value } => if f == field { Some(value) } else { last_set(ops.drop_last(), field) },
            _ => last_set(ops.drop_last(), field),
        }
    }
}
pub open spec fn get(m: Mask, field: int) -> Option<int> { if m.val.dom().contains(field) { Some(m.val[field]) } else { None } }

pub proof fn lemma_invariant_preserved(m: Mask, op: Op)
    requires inv(m),
    ensures inv(apply(m, op)),
{
    match op {
        Op::Set { field, value } => { assert(m.val.insert(field, value).dom() =~= m.present.insert(field)); }
        _ => {}
    }
}

pub proof fn lemma_history_last_write_wins(ops: Seq<Op>, field: int)
    ensures
        inv(run(Mask { present: Set::empty(), dirty: Set::empty(), val: Map::empty() }, ops)),
        get(run(Mask { present: Set::empty(), dirty: Set::empty(), val: Map::empty() }, ops), field) == last_set(ops, field),
    decreases ops.len()
{
    let m0 = Mask { present: Set::<int>::empty(), dirty: Set::<int>::empty(), val: Map::<int, int>::empty() };
    if ops.len() == 0 {
        assert(m0.val.dom() =~= m0.present);
    } else {
        lemma_history_last_write_wins(ops.drop_last(), field);
        lemma_invariant_preserved(run(m0, ops.drop_last()), ops.last());
    }
}

// vacuity canary: must be refuted
pub proof fn canary_c13_history(ops: Seq<Op>, field: int)
    ensures get(run(Mask { present: Set::empty(), dirty: Set::empty(), val: Map::empty() }, ops), field) == Some(0int),
{
}
} // verus!
fn main() {}
