// C02(e) — stream alignment lemma (unbounded, over the contracts of C02(a)-(d) and C01).
// This file is about the *contracts*: it contains no model of the code. The hypotheses of
// `lemma_stream_decodes` are exactly the per-call contracts discharged by Kani:
//   W: write(m)  ==  hdr(opcode, |body|) ++ body            (header writers, size clause, default writers)
//   R: a reader positioned on  hdr(op,k) ++ body ++ rest  with |body| = k consumes |hdr(op,k)| + k bytes
//      and yields (op, body)                                 (reader / expect contracts)
// Conclusion: any concatenation of written messages decodes to the same sequence of messages.
use vstd::prelude::*;
verus! {

pub struct Msg { pub opcode: int, pub body: Seq<u8> }

pub uninterp spec fn hdr(opcode: int, k: nat) -> Seq<u8>;
pub uninterp spec fn read1(s: Seq<u8>) -> (Msg, nat);

pub open spec fn write1(m: Msg) -> Seq<u8> { hdr(m.opcode, m.body.len()) + m.body }

pub open spec fn reader_contract() -> bool {
    forall|op: int, body: Seq<u8>, rest: Seq<u8>|
        #[trigger] read1(hdr(op, body.len()) + body + rest)
            == (Msg { opcode: op, body: body }, (hdr(op, body.len()).len() + body.len()) as nat)
}

pub open spec fn stream(ms: Seq<Msg>) -> Seq<u8>
    decreases ms.len()
{
    if ms.len() == 0 { Seq::<u8>::empty() } else { write1(ms[0]) + stream(ms.drop_first()) }
}

pub open spec fn read_all(s: Seq<u8>, count: nat) -> Seq<Msg>
    decreases count
{
    if count == 0 { Seq::<Msg>::empty() } else {
        let (m, c) = read1(s);
        seq![m] + read_all(s.subrange(c as int, s.len() as int), (count - 1) as nat)
    }
}

pub proof fn lemma_stream_decodes(ms: Seq<Msg>)
    requires reader_contract(),
    ensures read_all(stream(ms), ms.len()) == ms,
    decreases ms.len()
{
    if ms.len() == 0 {
        assert(read_all(stream(ms), 0) =~= ms);
    } else {
        let m = ms[0];
        let rest = stream(ms.drop_first());
        let h = hdr(m.opcode, m.body.len());
        assert(stream(ms) == h + m.body + rest);
        assert(read1(h + m.body + rest) == (Msg { opcode: m.opcode, body: m.body }, (h.len() + m.body.len()) as nat));
        let c = (h.len() + m.body.len()) as nat;
        assert((h + m.body + rest).subrange(c as int, (h + m.body + rest).len() as int) =~= rest);
        lemma_stream_decodes(ms.drop_first());
        assert(Msg { opcode: m.opcode, body: m.body } == m);
        assert(seq![m] + ms.drop_first() =~= ms);
    }
}

// The reader also leaves the stream positioned at the end: total consumption equals the stream length.
pub open spec fn consumed(s: Seq<u8>, count: nat) -> nat
    decreases count
{
    if count == 0 { 0 } else {
        let (m, c) = read1(s);
        c + consumed(s.subrange(c as int, s.len() as int), (count - 1) as nat)
    }
}

pub proof fn lemma_stream_fully_consumed(ms: Seq<Msg>)
    requires reader_contract(),
    ensures consumed(stream(ms), ms.len()) == stream(ms).len(),
    decreases ms.len()
{
    if ms.len() == 0 {
    } else {
        let m = ms[0];
        let rest = stream(ms.drop_first());
        let h = hdr(m.opcode, m.body.len());
        assert(stream(ms) == h + m.body + rest);
        assert(read1(h + m.body + rest) == (Msg { opcode: m.opcode, body: m.body }, (h.len() + m.body.len()) as nat));
        let c = (h.len() + m.body.len()) as nat;
        assert((h + m.body + rest).subrange(c as int, (h + m.body + rest).len() as int) =~= rest);
        lemma_stream_fully_consumed(ms.drop_first());
    }
}

// vacuity canary: must be refuted
pub proof fn canary_c02_concat(ms: Seq<Msg>)
    ensures read_all(stream(ms), ms.len()) == ms,
{
}

} // verus!
fn main() {}
