// Shared specification side for C02 / C05 (world message framing), written from the property
// statements and wowm_language/src/ir/implementing_world.md — not from the code:
//   * every message starts with a big-endian size field that counts the bytes after itself
//     (opcode + body); client opcodes are 4 bytes LE, server opcodes 2 bytes LE;
//   * the size field is 2 bytes, except for Wrath server messages whose field value exceeds
//     0x7FFF: then it is 3 bytes and bit 0x80 of its first byte is set.
// Plus the harness plumbing: a dummy message type, a fixed-capacity sink and a recording reader.
use crate::traits::private::{Internal, Sealed};
use crate::Message;
use std::io;

#[derive(Clone, Copy, PartialEq, Eq)]
pub enum Ver {
    Vanilla,
    Tbc,
    Wrath,
}
#[derive(Clone, Copy, PartialEq, Eq)]
pub enum Dir {
    Client,
    Server,
}

pub fn spec_opcode_len(d: Dir) -> u32 {
    match d {
        Dir::Client => 4,
        Dir::Server => 2,
    }
}
/// Value of the size field in front of a body of `n` bytes.
pub fn spec_field(d: Dir, n: u32) -> u32 {
    n + spec_opcode_len(d)
}
pub fn spec_large(v: Ver, d: Dir, n: u32) -> bool {
    v == Ver::Wrath && d == Dir::Server && spec_field(d, n) > 0x7FFF
}
/// Largest body length the header form can express.
pub fn spec_max_body(v: Ver, d: Dir) -> u32 {
    if v == Ver::Wrath && d == Dir::Server {
        0x7F_FFFF - 2
    } else {
        0xFFFF - spec_opcode_len(d)
    }
}
pub fn spec_header_len(v: Ver, d: Dir, n: u32) -> usize {
    (if spec_large(v, d, n) { 3 } else { 2 }) + spec_opcode_len(d) as usize
}
/// The header bytes for (opcode, body length n); unused tail bytes are 0.
pub fn spec_header(v: Ver, d: Dir, opcode: u32, n: u32) -> [u8; 7] {
    let f = spec_field(d, n);
    let mut h = [0_u8; 7];
    let mut i = 0;
    if spec_large(v, d, n) {
        h[0] = 0x80 | (f >> 16) as u8;
        h[1] = (f >> 8) as u8;
        h[2] = f as u8;
        i = 3;
    } else {
        h[0] = (f >> 8) as u8;
        h[1] = f as u8;
        i = 2;
    }
    h[i] = opcode as u8;
    h[i + 1] = (opcode >> 8) as u8;
    if d == Dir::Client {
        h[i + 2] = (opcode >> 16) as u8;
        h[i + 3] = (opcode >> 24) as u8;
    }
    h
}

/// What a header announces, read back from raw header bytes (the inverse direction of `spec_header`).
pub struct Announced {
    pub header_len: u64,
    pub field: u32,
    pub opcode: u32,
}
pub fn spec_parse_header(v: Ver, d: Dir, b: &[u8; 6]) -> Announced {
    let large = v == Ver::Wrath && d == Dir::Server && (b[0] & 0x80) != 0;
    let (field, o) = if large {
        ((((b[0] & 0x7F) as u32) << 16) | ((b[1] as u32) << 8) | b[2] as u32, 3)
    } else {
        (((b[0] as u32) << 8) | b[1] as u32, 2)
    };
    let opcode = match d {
        Dir::Server => (b[o] as u32) | ((b[o + 1] as u32) << 8),
        Dir::Client => (b[o] as u32) | ((b[o + 1] as u32) << 8) | ((b[o + 2] as u32) << 16) | ((b[o + 3] as u32) << 24),
    };
    Announced { header_len: (o as u64) + spec_opcode_len(d) as u64, field, opcode }
}

// ---------------------------------------------------------------------------------------------
// Plumbing
// ---------------------------------------------------------------------------------------------

pub const SINK_CAP: usize = 16;
/// Fixed-capacity writer: keeps the first SINK_CAP bytes, counts all of them.
pub struct Sink {
    pub buf: [u8; SINK_CAP],
    pub len: usize,
}
impl Sink {
    pub fn new() -> Self {
        Self { buf: [0; SINK_CAP], len: 0 }
    }
}
impl io::Write for Sink {
    fn write(&mut self, data: &[u8]) -> io::Result<usize> {
        let mut i = 0;
        while i < data.len() {
            if self.len < SINK_CAP {
                self.buf[self.len] = data[i];
            }
            self.len += 1;
            i += 1;
        }
        Ok(data.len())
    }
    fn flush(&mut self) -> io::Result<()> {
        Ok(())
    }
}

/// Recording reader: serves 6 symbolic bytes as the first 6 bytes of the stream and then only
/// counts how many bytes were requested. `read_exact` is overridden so that CBMC never runs the
/// default retry loop over a symbolic-length buffer.
pub struct Rec {
    pub bytes: [u8; 6],
    pub pos: u64,
}
impl io::Read for Rec {
    fn read(&mut self, buf: &mut [u8]) -> io::Result<usize> {
        io::Read::read_exact(self, buf)?;
        Ok(buf.len())
    }
    fn read_exact(&mut self, buf: &mut [u8]) -> io::Result<()> {
        let n = buf.len();
        let mut i: usize = 0;
        while i < n && self.pos + (i as u64) < 6 {
            buf[i] = self.bytes[(self.pos as usize) + i];
            i += 1;
        }
        self.pos += n as u64;
        Ok(())
    }
}

pub const DUMMY_OPCODE: u32 = 0x01D7;
pub const DUMMY_BODY: usize = 8;
/// A message whose body length is a free parameter. `write_into_vec` emits `min(n, 8)` bytes of
/// `body` (the glue contracts use n <= 8; the header contracts never call it).
/// `read_body` records what the reader handed to it.
pub struct Dummy {
    pub n: u32,
    pub body: [u8; DUMMY_BODY],
    pub got_len: u64,
}
impl Sealed for Dummy {}
impl Message for Dummy {
    const OPCODE: u32 = DUMMY_OPCODE;
    fn size_without_header(&self) -> u32 {
        self.n
    }
    fn write_into_vec(&self, mut w: impl io::Write) -> Result<(), io::Error> {
        let k = if (self.n as usize) < DUMMY_BODY { self.n as usize } else { DUMMY_BODY };
        w.write_all(&self.body[..k])
    }
    fn read_body<S: Sealed>(r: &mut &[u8], body_size: u32) -> Result<Self, crate::errors::ParseError> {
        Ok(Self { n: body_size, body: [0; DUMMY_BODY], got_len: r.len() as u64 })
    }
}
impl crate::vanilla::ServerMessage for Dummy {}
impl crate::vanilla::ClientMessage for Dummy {}
impl crate::tbc::ServerMessage for Dummy {}
impl crate::tbc::ClientMessage for Dummy {}
impl crate::wrath::ServerMessage for Dummy {}
impl crate::wrath::ClientMessage for Dummy {}

pub fn any_dummy(max: u32) -> Dummy {
    let n: u32 = kani::any();
    kani::assume(n <= max);
    Dummy { n, body: kani::any(), got_len: 0 }
}
