// Contracts on the hand-written primitive codecs every generated decoder is built from
// (wow_world_messages/src/util/functions/{base,shared}.rs). Totality (C03) is Kani's built-in checks
// (no panic, overflow, out-of-bounds) for *every* input; functional clauses are named C01.
use super::spec_rt::Out;
use crate::util::*;

// Bool / Bool16 / Bool32 (lang-spec.md: "0 means false and all other values mean true")
#[kani::proof]
#[kani::unwind(2)]
fn prim_read_bool_u8() {
    let b: [u8; 1] = kani::any();
    let mut r: &[u8] = &b;
    let res = read_bool_u8(&mut r);
    kani::cover!(b[0] > 1, "C03:cover-bool-above-one");
    assert!(res.is_ok(), "C03:bool-decoding-returns-for-every-byte");
    assert!(res.unwrap() == (b[0] != 0), "C01:bool-nonzero-means-true");
}
#[kani::proof]
#[kani::unwind(2)]
fn prim_read_bool_u16() {
    let b: [u8; 2] = kani::any();
    let mut r: &[u8] = &b;
    let res = read_bool_u16(&mut r);
    assert!(res.is_ok(), "C03:bool16-decoding-returns-for-every-value");
    assert!(res.unwrap() == (b[0] != 0 || b[1] != 0), "C01:bool16-nonzero-means-true");
}
#[kani::proof]
#[kani::unwind(2)]
fn prim_read_bool_u32() {
    let b: [u8; 4] = kani::any();
    let mut r: &[u8] = &b;
    let res = read_bool_u32(&mut r);
    assert!(res.is_ok(), "C03:bool32-decoding-returns-for-every-value");
    assert!(res.unwrap() == (u32::from_le_bytes(b) != 0), "C01:bool32-nonzero-means-true");
}

// SizedCString body reader: total for every announced size, including 0 and sizes beyond the frame
#[kani::proof]
#[kani::unwind(6)]
fn prim_read_sized_c_string_total() {
    let b: [u8; 4] = kani::any();
    let n: usize = kani::any();
    kani::assume(n <= 4);
    let size: u32 = kani::any();
    kani::assume(size <= 6 || size >= 0x7F_FFF0);
    let mut r: &[u8] = &b[..n];
    let res = read_sized_c_string_to_vec(&mut r, size);
    kani::cover!(size == 0, "C03:cover-sized-cstring-size-zero");
    if let Ok(v) = &res {
        assert!(size >= 1, "C03:sized-cstring-size-zero-is-not-a-string");
        assert!(v.len() as u32 == size - 1, "C01:sized-cstring-length-is-size-minus-terminator");
        assert!(r.len() + size as usize == n, "C01:sized-cstring-consumes-size-bytes");
    }
    std::mem::forget(res);
}

// PackedGuid (types/packed-guid.md)
#[kani::proof]
#[kani::unwind(10)]
fn prim_packed_guid_write_then_read() {
    let g: u64 = kani::any();
    let guid = crate::Guid::new(g);
    let mut out: Out<16> = Out::new();
    assert!(write_packed_guid(&guid, &mut out).is_ok(), "C01:packed-guid-write-succeeds");
    // mask = set of non-zero bytes; length = 1 + popcount(mask) = packed_guid_size
    let mut mask = 0_u8;
    let mut cnt = 0_usize;
    let mut i = 0;
    while i < 8 {
        if (g >> (8 * i)) & 0xFF != 0 {
            mask |= 1 << i;
            cnt += 1;
        }
        i += 1;
    }
    assert!(out.buf[0] == mask, "C01:packed-guid-mask-marks-nonzero-bytes");
    assert!(out.len == 1 + cnt, "C01:packed-guid-length");
    assert!(packed_guid_size(&guid) == out.len, "C09:packed-guid-size-equals-bytes-written");
    assert!(out.len >= 1 && out.len <= 9, "C09:packed-guid-size-within-1-and-9");
    let mut r: &[u8] = &out.buf[..out.len];
    let back = read_packed_guid(&mut r);
    assert!(back.is_ok() && back.unwrap().guid() == g, "C01:packed-guid-read-inverts-write");
    assert!(r.is_empty(), "C01:packed-guid-read-consumes-what-was-written");
}
#[kani::proof]
#[kani::unwind(10)]
fn prim_packed_guid_read_total_and_canonical_roundtrip() {
    let b: [u8; 9] = kani::any();
    let n: usize = kani::any();
    kani::assume(n <= 9);
    let mut r: &[u8] = &b[..n];
    let res = read_packed_guid(&mut r);
    if let Ok(g) = &res {
        let used = n - r.len();
        // canonical = every byte listed by the mask is non-zero
        let mut canon = true;
        let mut i = 1;
        while i < 9 {
            if i < used && b[i] == 0 {
                canon = false;
            }
            i += 1;
        }
        if canon {
            let mut out: Out<16> = Out::new();
            let _ = write_packed_guid(g, &mut out);
            assert!(out.len == used, "C01:packed-guid-canonical-reencoding-length");
            let k: usize = kani::any();
            kani::assume(k < used);
            assert!(out.buf[k] == b[k], "C01:packed-guid-canonical-reencoding-bytes");
        }
    }
}

#[kani::proof]
#[kani::unwind(2)]
fn prim_u16_u32_split_join() {
    let a: u32 = kani::any();
    let (hi, lo) = u32_to_u16s(a);
    assert!(hi as u32 == a >> 16 && lo as u32 == a & 0xFFFF, "C01:u32-split-into-high-and-low-u16");
    assert!(u16s_to_u32(hi, lo) == a, "C01:u16-join-inverts-split");
}

// CString reader: bounded stand-in (frames of at most 6 bytes; the 256-byte limit loop is not unwound)
#[kani::proof]
#[kani::unwind(8)]
fn prim_read_c_string_bounded() {
    let b: [u8; 6] = kani::any();
    let n: usize = kani::any();
    kani::assume(n <= 6);
    let mut r: &[u8] = &b[..n];
    let res = read_c_string_to_vec(&mut r);
    if let Ok(v) = &res {
        let used = n - r.len();
        assert!(used == v.len() + 1, "C01:cstring-consumes-content-plus-terminator");
        assert!(b[used - 1] == 0, "C01:cstring-stops-at-first-zero-byte");
        let k: usize = kani::any();
        kani::assume(k < v.len());
        assert!(v[k] == b[k] && v[k] != 0, "C01:cstring-content-is-the-bytes-before-the-terminator");
    }
    std::mem::forget(res);
}

// messages without members are dispatched through assert_empty: exactly the empty body is accepted
#[kani::proof]
#[kani::unwind(2)]
fn prim_assert_empty() {
    let body_size: u32 = kani::any();
    let opcode: u32 = kani::any();
    let r = assert_empty(body_size, opcode, "X");
    assert!(r.is_ok() == (body_size == 0), "C04:memberless-message-accepts-only-the-empty-body");
    std::mem::forget(r);
}

#[kani::proof]
#[kani::unwind(2)]
fn prim_canary() {
    let a: u32 = kani::any();
    assert!(u32_to_u16s(a).0 == 0, "CANARY:primitives");
}
