// C13 — contracts on the hand-written update-mask core (helper/update_mask_common/inners.rs).
// Abstract view of a mask: present = set bits of `header`, dirty = set bits of `dirty_mask`, val = `values`.
// Representation invariant Inv: header.len() == dirty_mask.len(); bit i of header set <=> i in dom(values).
// All contracts here are BOUNDED (masks of at most 3 blocks = field indices < 96; at most one or two map entries):
// CBMC cannot carry larger BTreeMaps. They are reported as bounded, never as proved.
use crate::helper::update_mask_common::inners::*;
use super::spec_rt::Out;
use std::collections::BTreeMap;

fn any_mask(len: usize) -> Vec<u32> {
    let mut v = Vec::with_capacity(4);
    let mut i = 0;
    while i < len {
        v.push(kani::any());
        i += 1;
    }
    v
}
fn bit_of(v: &[u32], bit: u16) -> bool {
    let i = (bit / 32) as usize;
    i < v.len() && (v[i] >> (bit % 32)) & 1 == 1
}

#[kani::proof]
#[kani::unwind(6)]
fn c13_array_set_contract() {
    let len: usize = kani::any();
    kani::assume(len <= 3);
    let mut a = any_mask(len);
    let old = a.clone();
    let bit: u16 = kani::any();
    kani::assume(bit < 96);
    array_set(&mut a, bit);
    let want_len = if (bit / 32) as usize + 1 > len { (bit / 32) as usize + 1 } else { len };
    assert!(a.len() == want_len, "C13:array_set-grows-to-exactly-the-block-of-the-bit");
    assert!(bit_of(&a, bit), "C13:array_set-sets-the-bit");
    let other: u16 = kani::any();
    kani::assume(other < 96 && other != bit);
    assert!(bit_of(&a, other) == bit_of(&old, other), "C13:array_set-leaves-every-other-bit-unchanged");
}

#[kani::proof]
#[kani::unwind(6)]
fn c13_array_reset_fill_contract() {
    let len: usize = kani::any();
    kani::assume(len <= 3);
    let mut a = any_mask(len);
    let mut b = a.clone();
    array_reset(&mut a);
    array_fill_ones(&mut b);
    assert!(a.len() == len && b.len() == len, "C13:reset-and-fill-keep-the-length");
    let k: u16 = kani::any();
    kani::assume((k as usize) < len * 32);
    assert!(!bit_of(&a, k), "C13:dirty_reset-clears-every-bit");
    assert!(bit_of(&b, k), "C13:mark_fully_dirty-sets-every-bit");
    assert!(has_array_bit_set(&b, k) && !has_array_bit_set(&a, k), "C13:has_array_bit_set-reads-the-bit");
    assert!(has_any_bit_set(&a) == false, "C13:no-dirty-fields-after-reset");
}

#[kani::proof]
#[kani::unwind(6)]
fn c13_update_mask_size_contract() {
    let len: usize = kani::any();
    kani::assume(len <= 3);
    let h = any_mask(len);
    let d = any_mask(len);
    let mut cnt = 0_usize;
    let mut i = 0;
    while i < len {
        cnt += (h[i] & d[i]).count_ones() as usize;
        i += 1;
    }
    assert!(update_mask_size(&d, &h) == 1 + 4 * len + 4 * cnt, "C13:reported-size-is-count-byte-plus-blocks-plus-present-dirty-values");
}

// typed setters/getters on the real map, one field at a time (one or two map entries)
macro_rules! roundtrip {
    ($name:ident, $unw:expr, |$vals:ident, $hdr:ident, $dirty:ident, $bit:ident| $set:block) => {
        #[kani::proof]
        #[kani::unwind($unw)]
        fn $name() {
            let mut $vals: BTreeMap<u16, u32> = BTreeMap::new();
            let mut $hdr: Vec<u32> = Vec::new();
            let mut $dirty: Vec<u32> = Vec::new();
            let $bit: u16 = kani::any();
            kani::assume($bit < 62);
            $set;
            assert!($hdr.len() == $dirty.len(), "C13:header-and-dirty-mask-keep-equal-length");
            assert!(bit_of(&$hdr, $bit) && bit_of(&$dirty, $bit), "C13:setter-marks-field-present-and-dirty");
            std::mem::forget($vals);
        }
    };
}
roundtrip!(c13_int_roundtrip, 8, |vals, hdr, dirty, bit| {
    let v: i32 = kani::any();
    set_int(&mut vals, &mut hdr, Some(&mut dirty), bit, v);
    assert!(get_int(&vals, bit) == Some(v), "C13:getter-returns-the-value-last-set-(int)");
});
roundtrip!(c13_float_roundtrip, 8, |vals, hdr, dirty, bit| {
    let v: u32 = kani::any();
    set_float(&mut vals, &mut hdr, Some(&mut dirty), bit, f32::from_bits(v));
    assert!(get_float(&vals, bit).map(|f| f.to_bits()) == Some(v), "C13:getter-returns-the-value-last-set-(float)");
});
roundtrip!(c13_bytes_roundtrip, 8, |vals, hdr, dirty, bit| {
    let (a, b, c, d): (u8, u8, u8, u8) = (kani::any(), kani::any(), kani::any(), kani::any());
    set_bytes(&mut vals, &mut hdr, Some(&mut dirty), bit, a, b, c, d);
    assert!(get_bytes(&vals, bit) == Some((a, b, c, d)), "C13:getter-returns-the-value-last-set-(bytes)");
});
roundtrip!(c13_shorts_roundtrip, 8, |vals, hdr, dirty, bit| {
    let (a, b): (u16, u16) = (kani::any(), kani::any());
    set_shorts(&mut vals, &mut hdr, Some(&mut dirty), bit, a, b);
    assert!(get_shorts(&vals, bit) == Some((a, b)), "C13:getter-returns-the-value-last-set-(two-shorts)");
});
// set_guid against the contract of header_set (callee contract, not body: two BTreeMap insertions are beyond CBMC here):
// header_set is replaced by a recording stub; set_guid must store the low word at `bit` and the high word at `bit + 1`,
// with dirty tracking passed on. Guid::to_u32s / from_u32s (used by get_guid) are inverse for every guid.
pub fn stub_header_set(values: &mut BTreeMap<u16, u32>, header: &mut Vec<u32>, dirty_mask: Option<&mut Vec<u32>>, bit: u16, value: u32) {
    header.push(bit as u32);
    header.push(value);
    header.push(dirty_mask.is_some() as u32);
}
#[kani::proof]
#[kani::unwind(4)]
#[kani::stub(crate::helper::update_mask_common::inners::header_set, stub_header_set)]
fn c13_guid_set_contract() {
    let mut vals: BTreeMap<u16, u32> = BTreeMap::new();
    let mut hdr: Vec<u32> = Vec::with_capacity(8);
    let mut dirty: Vec<u32> = Vec::new();
    let bit: u16 = kani::any();
    kani::assume(bit < 0xFFFF);
    let g: u64 = kani::any();
    let with_dirty: bool = kani::any();
    if with_dirty {
        set_guid(&mut vals, &mut hdr, Some(&mut dirty), bit, crate::Guid::new(g));
    } else {
        set_guid(&mut vals, &mut hdr, None, bit, crate::Guid::new(g));
    }
    assert!(hdr.len() == 6, "C13:guid-setter-stores-exactly-two-words");
    assert!(hdr[0] == bit as u32 && hdr[1] == g as u32, "C13:guid-low-word-at-the-field-index");
    assert!(hdr[3] == bit as u32 + 1 && hdr[4] == (g >> 32) as u32, "C13:guid-high-word-at-the-next-index");
    assert!(hdr[2] == with_dirty as u32 && hdr[5] == with_dirty as u32, "C13:guid-setter-passes-dirty-tracking-on");
    let (lo, hi) = crate::Guid::new(g).to_u32s();
    assert!(crate::Guid::from_u32s(lo, hi).guid() == g, "C13:guid-word-split-is-inverted-by-the-getter-join");
    std::mem::forget(vals);
}

// wire form: count byte, blocks = header & dirty, then the values of present-and-dirty fields in ascending index
#[kani::proof]
#[kani::unwind(8)]
fn c13_write_one_field() {
    let mut vals: BTreeMap<u16, u32> = BTreeMap::new();
    let mut hdr: Vec<u32> = Vec::new();
    let mut dirty: Vec<u32> = Vec::new();
    let bit: u16 = kani::any();
    kani::assume(bit < 32);
    let v: u32 = kani::any();
    header_set(&mut vals, &mut hdr, Some(&mut dirty), bit, v);
    let reset: bool = kani::any();
    if reset {
        array_reset(&mut dirty);
    }
    let blocks = hdr.len();
    let mut out: Out<32> = Out::new();
    assert!(write_into_vec(&mut out, &hdr, &dirty, &vals).is_ok(), "C13:write-succeeds-under-the-invariant");
    assert!(out.buf[0] as usize == blocks, "C13:written-form-starts-with-block-count");
    let expect_len = 1 + 4 * blocks + if reset { 0 } else { 4 };
    assert!(out.len == expect_len, "C13:written-length");
    assert!(out.len == update_mask_size(&dirty, &hdr), "C13:reported-size-equals-bytes-written");
    let idx = 1 + 4 * (bit / 32) as usize;
    let blk = u32::from_le_bytes([out.buf[idx], out.buf[idx + 1], out.buf[idx + 2], out.buf[idx + 3]]);
    assert!(blk == if reset { 0 } else { 1 << (bit % 32) }, "C13:mask-blocks-are-present-and-dirty-bits");
    if !reset {
        let o = 1 + 4 * blocks;
        assert!(u32::from_le_bytes([out.buf[o], out.buf[o + 1], out.buf[o + 2], out.buf[o + 3]]) == v, "C13:values-follow-the-blocks");
    }
    std::mem::forget(vals);
}

// decoding a written form (one block, one field) returns exactly the written field; the field index is concrete per call
// (0, 5, 31), the value symbolic
#[kani::proof]
#[kani::unwind(34)]
fn c13_read_one_block() {
    fn one(bit: u16) {
        let v: u32 = kani::any();
        let m = (1_u32 << bit).to_le_bytes();
        let vb = v.to_le_bytes();
        let bytes = [1_u8, m[0], m[1], m[2], m[3], vb[0], vb[1], vb[2], vb[3]];
        let mut r: &[u8] = &bytes;
        let back = read_inner(&mut r);
        match &back {
            Ok((h2, v2)) => {
                assert!(h2.len() == 1 && h2[0] == 1 << bit, "C13:decoding-returns-the-written-mask");
                assert!(v2.get(&bit) == Some(&v) && v2.len() == 1, "C13:decoding-returns-exactly-the-written-fields");
                assert!(r.is_empty(), "C13:decoding-consumes-the-written-form");
            }
            Err(_) => assert!(false, "C13:written-form-decodes"),
        }
        std::mem::forget(back);
    }
    one(0);
    one(5);
    one(31);
}

#[kani::proof]
#[kani::unwind(3)]
fn c13_canary() {
    let mut a: Vec<u32> = Vec::new();
    array_set(&mut a, 3);
    assert!(a.len() == 2, "CANARY:c13");
}
