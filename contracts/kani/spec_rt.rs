// Runtime of the generated *specification walkers* (C01/C02a/C03/C04/C09c). A walker reads the bytes of a
// message body exactly as its wowm definition prescribes (lang-spec.md, types/*.md) and reports
//   ok        the bytes are an encoding of the definition so far (enough bytes, declared enum values, real DateTime)
//   canon     ... and a canonical one (Bool in {0,1}, constants equal, packed-guid bytes non-zero)
//   bad_enum  walking stopped at an enum-typed member whose full-wire-width value is not declared (bad_value)
//   p         bytes consumed
// Nothing in here is derived from the codecs.
use std::io;

pub struct W<'a> {
    pub b: &'a [u8],
    pub n: usize,
    pub p: usize,
    pub ok: bool,
    pub canon: bool,
    pub bad_enum: bool,
    pub bad_value: u64,
    /// a Level16 / Level32 member carried a value above 255 (the language calls these aliases of u16 / u32)
    pub wide_level: bool,
}

impl<'a> W<'a> {
    pub fn new(b: &'a [u8], n: usize) -> Self {
        Self { b, n, p: 0, ok: true, canon: true, bad_enum: false, bad_value: 0, wide_level: false }
    }
    fn need(&mut self, k: usize) -> bool {
        if !self.ok {
            return false;
        }
        if self.p + k > self.n {
            self.ok = false;
            return false;
        }
        true
    }
    pub fn le1(&mut self) -> u64 {
        if !self.need(1) {
            return 0;
        }
        let v = self.b[self.p] as u64;
        self.p += 1;
        v
    }
    pub fn le2(&mut self) -> u64 {
        if !self.need(2) {
            return 0;
        }
        let v = (self.b[self.p] as u64) | ((self.b[self.p + 1] as u64) << 8);
        self.p += 2;
        v
    }
    pub fn le4(&mut self) -> u64 {
        if !self.need(4) {
            return 0;
        }
        let v = (self.b[self.p] as u64)
            | ((self.b[self.p + 1] as u64) << 8)
            | ((self.b[self.p + 2] as u64) << 16)
            | ((self.b[self.p + 3] as u64) << 24);
        self.p += 4;
        v
    }
    pub fn le6(&mut self) -> u64 {
        let lo = self.le4();
        let hi = self.le2();
        lo | (hi << 32)
    }
    pub fn le8(&mut self) -> u64 {
        let lo = self.le4();
        let hi = self.le4();
        lo | (hi << 32)
    }
    pub fn be2(&mut self) -> u64 {
        let v = self.le2();
        ((v & 0xFF) << 8) | (v >> 8)
    }
    pub fn be4(&mut self) -> u64 {
        let v = self.le4();
        ((v & 0xFF) << 24) | ((v & 0xFF00) << 8) | ((v >> 8) & 0xFF00) | (v >> 24)
    }
    pub fn be8(&mut self) -> u64 {
        let hi = self.be4();
        let lo = self.be4();
        (hi << 32) | lo
    }
    /// enum-typed member: `v` is the value at full wire width, `declared` whether the definition lists it
    pub fn enum_member(&mut self, v: u64, declared: bool) {
        if self.ok && !declared {
            self.ok = false;
            self.bad_enum = true;
            self.bad_value = v;
        }
    }
    pub fn level(&mut self, v: u64) {
        if self.ok && v > 255 {
            self.wide_level = true;
        }
    }
    /// Bool / Bool32: every non-zero value means true; canonical encodings use 0 or 1
    pub fn boolean(&mut self, v: u64) {
        if self.ok && v > 1 {
            self.canon = false;
        }
    }
    /// member with `= constant`: a different value does not fail parsing but is not what a writer emits
    pub fn constant(&mut self, v: u64, c: u64) {
        if self.ok && v != c {
            self.canon = false;
        }
    }
    /// PackedGuid (types/packed-guid.md): mask byte, then one byte per set bit, least significant first
    pub fn packed_guid(&mut self) -> u64 {
        let m = self.le1();
        let mut g: u64 = 0;
        let mut i = 0;
        while i < 8 {
            if m & (1 << i) != 0 {
                let byte = self.le1();
                if self.ok && byte == 0 {
                    self.canon = false;
                }
                g |= byte << (8 * i);
            }
            i += 1;
        }
        g
    }
    /// DateTime (types/datetime.md + the calendar): see C15
    pub fn datetime(&mut self) -> u64 {
        let v = self.le4();
        if self.ok && !spec_datetime_valid(v as u32) {
            self.ok = false;
        }
        v
    }
    /// CString (lang-spec.md): UTF-8 bytes terminated by a zero byte. Bounded contracts restrict string content to
    /// ASCII: a non-ASCII byte makes the walk "not covered" (ok = false), never canonical.
    pub fn cstring(&mut self) {
        let mut done = false;
        while self.ok && !done {
            let c = self.le1();
            if self.ok {
                if c == 0 {
                    done = true;
                } else if c >= 0x80 {
                    self.ok = false;
                }
            }
        }
    }
    /// SizedCString: u32 = content length + 1, then the content and its zero terminator
    pub fn sized_cstring(&mut self) {
        let len = self.le4();
        if self.ok && len == 0 {
            self.ok = false;
        }
        let mut i: u64 = 0;
        while self.ok && i < len {
            let c = self.le1();
            if self.ok {
                if i + 1 == len {
                    if c != 0 {
                        self.ok = false;
                    }
                } else if c >= 0x80 || c == 0 {
                    // interior NUL: the decoder keeps it, but a reader of the C string would stop; treated as not covered
                    self.ok = false;
                }
            }
            i += 1;
        }
    }
    /// String: u8 length, then that many bytes
    pub fn string(&mut self) {
        let len = self.le1();
        let mut i: u64 = 0;
        while self.ok && i < len {
            let c = self.le1();
            if self.ok && c >= 0x80 {
                self.ok = false;
            }
            i += 1;
        }
    }
    /// canonical encoding of the whole body of `n` bytes
    pub fn canonical_whole(&self) -> bool {
        self.ok && self.canon && self.p == self.n
    }
}

fn spec_leap(y: u32) -> bool {
    (y % 4 == 0 && y % 100 != 0) || y % 400 == 0
}
fn spec_days_in(y: u32, m0: u32) -> u32 {
    match m0 {
        0 | 2 | 4 | 6 | 7 | 9 | 11 => 31,
        3 | 5 | 8 | 10 => 30,
        1 => {
            if spec_leap(y) {
                29
            } else {
                28
            }
        }
        _ => 0,
    }
}
fn spec_sakamoto(y: u32, m: u32, d: u32) -> u32 {
    const T: [u32; 12] = [0, 3, 2, 5, 0, 3, 5, 1, 4, 6, 2, 4];
    let y = if m < 3 { y - 1 } else { y };
    (y + y / 4 - y / 100 + y / 400 + T[(m - 1) as usize] + d) % 7
}
pub fn spec_datetime_valid(v: u32) -> bool {
    let minute = v & 0x3F;
    let hour = (v >> 6) & 0x1F;
    let weekday = (v >> 11) & 0x7;
    let day = (v >> 14) & 0x3F;
    let month = (v >> 20) & 0xF;
    let year = 2000 + ((v >> 24) & 0xFF);
    minute < 60 && hour < 24 && month < 12 && day < spec_days_in(year, month) && weekday < 7
        && weekday == spec_sakamoto(year, month + 1, day + 1)
}

/// Fixed-capacity sink used to observe what `write_into_vec` emits.
pub struct Out<const C: usize> {
    pub buf: [u8; C],
    pub len: usize,
}
impl<const C: usize> Out<C> {
    pub fn new() -> Self {
        Self { buf: [0; C], len: 0 }
    }
}
impl<const C: usize> io::Write for Out<C> {
    fn write(&mut self, data: &[u8]) -> io::Result<usize> {
        let k = data.len();
        if self.len + k <= C {
            self.buf[self.len..self.len + k].copy_from_slice(data);
        }
        self.len += k;
        Ok(k)
    }
    fn flush(&mut self) -> io::Result<()> {
        Ok(())
    }
}
