// C02 — framing contracts on the real header writers, size functions, default writers and readers
// of wow_world_messages. Injected as crate::verif_kani::c02_framing (scratch copy only).
use super::framing_spec::*;
use crate::errors::ExpectedOpcodeError;
use std::io::Write;

// -------------------------------------------------------------------------------------------
// (b) size functions + header writers: for every expressible body length n and every opcode,
//     *_size() does not overflow, the header written is spec_header, and header + n == size.
// -------------------------------------------------------------------------------------------
macro_rules! header_contract {
    ($name:ident, $ver:expr, $dir:expr, $tr:path, $sizefn:ident, $getter:path, $opty:ty, $szty:ty, $lo:expr, $hi:expr) => {
        #[kani::proof]
        #[kani::unwind(9)]
        fn $name() {
            let n: u32 = kani::any();
            kani::assume(n >= $lo && n <= $hi);
            let opcode: $opty = kani::any();
            let m = Dummy { n, body: [0; DUMMY_BODY], got_len: 0 };
            let size = <Dummy as $tr>::$sizefn(&m);
            let mut s = Sink::new();
            let r = $getter(&mut s, opcode as u16, size as $szty);
            kani::cover!(r.is_ok(), "C02:cover-header-written");
            assert!(r.is_ok(), "C02:header-writer-returns-ok");
            let hl = spec_header_len($ver, $dir, n);
            assert!(size as u64 == hl as u64 + n as u64, "C02:size-is-header-plus-body");
            assert!(s.len == hl, "C02:header-length");
            let want = spec_header($ver, $dir, opcode as u32, n);
            let k: usize = kani::any();
            kani::assume(k < 7 && k < hl);
            assert!(s.buf[k] == want[k], "C02:header-bytes-size-field-and-opcode");
        }
    };
}

// main ranges: every body length up to the largest one for which the *total* still fits the
// size function's return type; the two top values of the 2-byte forms are the `_edge` contracts below.
header_contract!(c02_header_vanilla_server, Ver::Vanilla, Dir::Server, crate::vanilla::ServerMessage, server_size,
    crate::util::vanilla_get_unencrypted_server, u16, u16, 0, 0xFFFB);
header_contract!(c02_header_vanilla_client, Ver::Vanilla, Dir::Client, crate::vanilla::ClientMessage, client_size,
    crate::util::vanilla_get_unencrypted_client, u16, u16, 0, 0xFFF9);
header_contract!(c02_header_tbc_server, Ver::Tbc, Dir::Server, crate::tbc::ServerMessage, server_size,
    crate::util::tbc_get_unencrypted_server, u16, u16, 0, 0xFFFB);
header_contract!(c02_header_tbc_client, Ver::Tbc, Dir::Client, crate::tbc::ClientMessage, client_size,
    crate::util::tbc_get_unencrypted_client, u16, u16, 0, 0xFFF9);
header_contract!(c02_header_wrath_server, Ver::Wrath, Dir::Server, crate::wrath::ServerMessage, server_size,
    crate::util::wrath_get_unencrypted_server, u16, u32, 0, 0x7F_FFFD);
header_contract!(c02_header_wrath_client, Ver::Wrath, Dir::Client, crate::wrath::ClientMessage, client_size,
    crate::util::wrath_get_unencrypted_client, u16, u16, 0, 0xFFF9);
// edge: body lengths the 2-byte size field can still express but whose total exceeds u16
header_contract!(c02_header_vanilla_server_edge, Ver::Vanilla, Dir::Server, crate::vanilla::ServerMessage, server_size,
    crate::util::vanilla_get_unencrypted_server, u16, u16, 0xFFFC, 0xFFFD);
header_contract!(c02_header_vanilla_client_edge, Ver::Vanilla, Dir::Client, crate::vanilla::ClientMessage, client_size,
    crate::util::vanilla_get_unencrypted_client, u16, u16, 0xFFFA, 0xFFFB);
header_contract!(c02_header_tbc_server_edge, Ver::Tbc, Dir::Server, crate::tbc::ServerMessage, server_size,
    crate::util::tbc_get_unencrypted_server, u16, u16, 0xFFFC, 0xFFFD);
header_contract!(c02_header_tbc_client_edge, Ver::Tbc, Dir::Client, crate::tbc::ClientMessage, client_size,
    crate::util::tbc_get_unencrypted_client, u16, u16, 0xFFFA, 0xFFFB);
header_contract!(c02_header_wrath_client_edge, Ver::Wrath, Dir::Client, crate::wrath::ClientMessage, client_size,
    crate::util::wrath_get_unencrypted_client, u16, u16, 0xFFFA, 0xFFFB);

// -------------------------------------------------------------------------------------------
// (c) default writers (header; body; assert_eq!; write_all): output == spec_header ++ body, no abort.
//     Executed with a body of n <= 8 symbolic bytes; for long bodies abort-freedom follows from (b)
//     and the per-container size clause (see DESIGN.md C02(c)).
// -------------------------------------------------------------------------------------------
macro_rules! writer_contract {
    ($name:ident, $ver:expr, $dir:expr, $tr:path, $wfn:ident) => {
        #[kani::proof]
        #[kani::unwind(17)]
        fn $name() {
            // body length is concrete per call (0..=8), body contents are symbolic
            fn one(n: u32) {
                let m = Dummy { n, body: kani::any(), got_len: 0 };
                let mut s = Sink::new();
                let r = <Dummy as $tr>::$wfn(&m, &mut s);
                assert!(r.is_ok(), "C02:writer-returns-ok");
                let hl = spec_header_len($ver, $dir, m.n);
                assert!(s.len == hl + m.n as usize, "C02:bytes-written-equal-header-plus-body");
                let want = spec_header($ver, $dir, DUMMY_OPCODE, m.n);
                let k: usize = kani::any();
                kani::assume(k < s.len && k < SINK_CAP);
                if k < hl {
                    assert!(s.buf[k] == want[k], "C02:writer-header-bytes");
                } else {
                    assert!(s.buf[k] == m.body[k - hl], "C02:writer-body-bytes-follow-header");
                }
            }
            one(0);
            one(1);
            one(2);
            one(3);
            one(4);
            one(5);
            one(6);
            one(7);
            one(8);
            kani::cover!(true, "C02:cover-writer-all-lengths-done");
        }
    };
}
writer_contract!(c02_writer_vanilla_server, Ver::Vanilla, Dir::Server, crate::vanilla::ServerMessage, write_unencrypted_server);
writer_contract!(c02_writer_vanilla_client, Ver::Vanilla, Dir::Client, crate::vanilla::ClientMessage, write_unencrypted_client);
writer_contract!(c02_writer_tbc_server, Ver::Tbc, Dir::Server, crate::tbc::ServerMessage, write_unencrypted_server);
writer_contract!(c02_writer_tbc_client, Ver::Tbc, Dir::Client, crate::tbc::ClientMessage, write_unencrypted_client);
writer_contract!(c02_writer_wrath_server, Ver::Wrath, Dir::Server, crate::wrath::ServerMessage, write_unencrypted_server);
writer_contract!(c02_writer_wrath_client, Ver::Wrath, Dir::Client, crate::wrath::ClientMessage, write_unencrypted_client);

// -------------------------------------------------------------------------------------------
// (d) readers consume exactly what the header announces and hand (opcode, body length, body) on.
//     The dispatcher `read_opcodes` is outside this contract (C01/C04): it is stubbed by a
//     function that returns its arguments.
// -------------------------------------------------------------------------------------------
macro_rules! opcode_stub {
    ($name:ident, $ty:path, $opty:ty) => {
        pub fn $name(opcode: $opty, body_size: u32, r: &[u8]) -> Result<$ty, ExpectedOpcodeError> {
            Err(ExpectedOpcodeError::Opcode {
                opcode: opcode as u32,
                name: if r.len() as u64 == body_size as u64 { Some("buffer-length-equals-body-size") } else { None },
                size: body_size,
            })
        }
    };
}
opcode_stub!(stub_vanilla_client, crate::vanilla::opcodes::ClientOpcodeMessage, u32);
opcode_stub!(stub_vanilla_server, crate::vanilla::opcodes::ServerOpcodeMessage, u16);
opcode_stub!(stub_tbc_client, crate::tbc::opcodes::ClientOpcodeMessage, u32);
opcode_stub!(stub_tbc_server, crate::tbc::opcodes::ServerOpcodeMessage, u16);
opcode_stub!(stub_wrath_client, crate::wrath::opcodes::ClientOpcodeMessage, u32);
opcode_stub!(stub_wrath_server, crate::wrath::opcodes::ServerOpcodeMessage, u16);

macro_rules! reader_contract {
    ($name:ident, $ver:expr, $dir:expr, $ty:path, $stub:ident) => {
        #[kani::proof]
        #[kani::unwind(8)]
        #[kani::stub($ty::read_opcodes, $stub)]
        fn $name() {
            let mut rec = Rec { bytes: kani::any(), pos: 0 };
            let a = spec_parse_header($ver, $dir, &rec.bytes);
            kani::assume(a.field >= spec_opcode_len($dir));
            let body = (a.field - spec_opcode_len($dir)) as u64;
            let r = <$ty>::read_unencrypted(&mut rec);
            match &r {
                Err(ExpectedOpcodeError::Opcode { opcode, name, size }) => {
                    kani::cover!(true, "C02:cover-reader-reached-dispatcher");
                    assert!(*opcode == a.opcode, "C02:reader-opcode-from-header");
                    assert!(*size as u64 == body, "C02:reader-body-size-announced");
                    assert!(name.is_some(), "C02:reader-buffer-holds-whole-body");
                }
                _ => assert!(false, "C02:reader-reaches-dispatcher"),
            }
            assert!(rec.pos == a.header_len + body, "C02:reader-consumes-announced");
            std::mem::forget(r);
        }
    };
}
reader_contract!(c02_reader_vanilla_client, Ver::Vanilla, Dir::Client, crate::vanilla::opcodes::ClientOpcodeMessage, stub_vanilla_client);
reader_contract!(c02_reader_vanilla_server, Ver::Vanilla, Dir::Server, crate::vanilla::opcodes::ServerOpcodeMessage, stub_vanilla_server);
reader_contract!(c02_reader_tbc_client, Ver::Tbc, Dir::Client, crate::tbc::opcodes::ClientOpcodeMessage, stub_tbc_client);
reader_contract!(c02_reader_tbc_server, Ver::Tbc, Dir::Server, crate::tbc::opcodes::ServerOpcodeMessage, stub_tbc_server);
reader_contract!(c02_reader_wrath_client, Ver::Wrath, Dir::Client, crate::wrath::opcodes::ClientOpcodeMessage, stub_wrath_client);
reader_contract!(c02_reader_wrath_server, Ver::Wrath, Dir::Server, crate::wrath::opcodes::ServerOpcodeMessage, stub_wrath_server);

macro_rules! expect_contract {
    ($name:ident, $ver:expr, $dir:expr, $f:path) => {
        #[kani::proof]
        #[kani::unwind(8)]
        fn $name() {
            let mut rec = Rec { bytes: kani::any(), pos: 0 };
            let a = spec_parse_header($ver, $dir, &rec.bytes);
            kani::assume(a.field >= spec_opcode_len($dir));
            let body = (a.field - spec_opcode_len($dir)) as u64;
            let r: Result<Dummy, ExpectedOpcodeError> = $f(&mut rec);
            match &r {
                Ok(m) => {
                    kani::cover!(true, "C02:cover-expect-ok");
                    assert!(a.opcode == DUMMY_OPCODE, "C02:expect-accepts-only-own-opcode");
                    assert!(m.n as u64 == body, "C02:expect-body-size-announced");
                    assert!(m.got_len == body, "C02:expect-buffer-holds-whole-body");
                }
                Err(ExpectedOpcodeError::Opcode { opcode, .. }) => {
                    kani::cover!(true, "C02:cover-expect-other-opcode");
                    assert!(a.opcode != DUMMY_OPCODE, "C02:expect-accepts-own-opcode");
                    assert!(*opcode == a.opcode, "C02:expect-reports-opcode");
                }
                _ => assert!(false, "C02:expect-no-other-error"),
            }
            assert!(rec.pos == a.header_len + body, "C02:expect-consumes-announced");
            std::mem::forget(r);
        }
    };
}
expect_contract!(c02_expect_vanilla_server, Ver::Vanilla, Dir::Server, crate::vanilla::expect_server_message);
expect_contract!(c02_expect_vanilla_client, Ver::Vanilla, Dir::Client, crate::vanilla::expect_client_message);
expect_contract!(c02_expect_tbc_server, Ver::Tbc, Dir::Server, crate::tbc::expect_server_message);
expect_contract!(c02_expect_tbc_client, Ver::Tbc, Dir::Client, crate::tbc::expect_client_message);
expect_contract!(c02_expect_wrath_server, Ver::Wrath, Dir::Server, crate::wrath::expect_server_message);
expect_contract!(c02_expect_wrath_client, Ver::Wrath, Dir::Client, crate::wrath::expect_client_message);

// Vacuity canary: must be refuted on every run.
#[kani::proof]
#[kani::unwind(9)]
fn c02_canary() {
    let n: u32 = kani::any();
    kani::assume(n <= 0xFFFB);
    let m = Dummy { n, body: [0; DUMMY_BODY], got_len: 0 };
    let size = <Dummy as crate::vanilla::ServerMessage>::server_size(&m);
    assert!(size != 4, "CANARY:c02");
}
