// C15 — contract on `impl TryFrom<u32> for DateTime` and the accessors.
// Injected as `crate::verif_kani::c15` into wow_world_base (scratch copy only).
// The specification side is written from the property statement + datetime.md:
// bit fields, Gregorian month lengths, weekday by Sakamoto's congruence
// (a different algorithm from the code's Rata Die sum).
use crate::manual::shared::datetime_vanilla_tbc_wrath::{DateTime, Month, Weekday};

fn spec_leap(y: u32) -> bool {
    (y % 4 == 0 && y % 100 != 0) || y % 400 == 0
}
fn spec_days_in(y: u32, m0: u32) -> u32 {
    match m0 {
        0 | 2 | 4 | 6 | 7 | 9 | 11 => 31,
        3 | 5 | 8 | 10 => 30,
        1 => {
            if spec_leap(y) {
                29
            } else {
                28
            }
        }
        _ => 0,
    }
}
/// 0 = Sunday; y full year, m 1..=12, d 1..=31
fn spec_sakamoto(y: u32, m: u32, d: u32) -> u32 {
    const T: [u32; 12] = [0, 3, 2, 5, 0, 3, 5, 1, 4, 6, 2, 4];
    let y = if m < 3 { y - 1 } else { y };
    (y + y / 4 - y / 100 + y / 400 + T[(m - 1) as usize] + d) % 7
}
fn spec_valid(v: u32) -> bool {
    let minute = v & 0x3F;
    let hour = (v >> 6) & 0x1F;
    let weekday = (v >> 11) & 0x7;
    let day = (v >> 14) & 0x3F;
    let month = (v >> 20) & 0xF;
    let year = 2000 + ((v >> 24) & 0xFF);
    minute < 60
        && hour < 24
        && month < 12
        && day < spec_days_in(year, month)
        && weekday < 7
        && weekday == spec_sakamoto(year, month + 1, day + 1)
}
fn weekday_index(w: Weekday) -> u32 {
    match w {
        Weekday::Sunday => 0,
        Weekday::Monday => 1,
        Weekday::Tuesday => 2,
        Weekday::Wednesday => 3,
        Weekday::Thursday => 4,
        Weekday::Friday => 5,
        Weekday::Saturday => 6,
    }
}
fn month_index(m: Month) -> u32 {
    match m {
        Month::January => 0,
        Month::February => 1,
        Month::March => 2,
        Month::April => 3,
        Month::May => 4,
        Month::June => 5,
        Month::July => 6,
        Month::August => 7,
        Month::September => 8,
        Month::October => 9,
        Month::November => 10,
        Month::December => 11,
    }
}

#[kani::proof]
#[kani::unwind(1)]
fn c15_try_from_contract() {
    let v: u32 = kani::any();
    let r = DateTime::try_from(v);
    let ok = r.is_ok();
    let spec = spec_valid(v);
    kani::cover!(ok, "C15:cover-accepting-path");
    kani::cover!(!ok, "C15:cover-rejecting-path");
    assert!(!ok || spec, "C15:accepts-only-real-instants");
    assert!(!spec || ok, "C15:accepts-every-real-instant");
    if let Ok(d) = r {
        assert!(d.as_int() == v, "C15:integer-form-unchanged");
        assert!(d.minutes() as u32 == v & 0x3F, "C15:accessor-minutes");
        assert!(d.hours() as u32 == (v >> 6) & 0x1F, "C15:accessor-hours");
        assert!(weekday_index(d.weekday()) == (v >> 11) & 0x7, "C15:accessor-weekday");
        assert!(d.month_day() as u32 == (v >> 14) & 0x3F, "C15:accessor-month-day");
        assert!(month_index(d.month()) == (v >> 20) & 0xF, "C15:accessor-month");
        assert!(d.years_after_2000() as u32 == (v >> 24) & 0xFF, "C15:accessor-year");
    }
}

// `DateTime::new` is the other public constructor; the accessors must invert its packing
// whenever the arguments are in the field ranges.
#[kani::proof]
#[kani::unwind(1)]
fn c15_new_accessors_contract() {
    let y: u8 = kani::any();
    let mi: u8 = kani::any();
    let h: u8 = kani::any();
    let d: u8 = kani::any();
    let m_i: u32 = kani::any();
    let w_i: u32 = kani::any();
    kani::assume(mi < 64 && h < 32 && d < 64 && m_i < 12 && w_i < 7);
    let m = Month::try_from(m_i).unwrap();
    let w = Weekday::try_from(w_i).unwrap();
    let dt = DateTime::new(y, m, d, w, h, mi);
    kani::cover!(true, "C15:cover-new");
    assert!(
        dt.as_int() == (y as u32) << 24 | m_i << 20 | (d as u32) << 14 | w_i << 11 | (h as u32) << 6 | mi as u32,
        "C15:new-packing"
    );
    assert!(dt.minutes() == mi, "C15:new-accessor-minutes");
    assert!(dt.hours() == h, "C15:new-accessor-hours");
    assert!(dt.month_day() == d, "C15:new-accessor-month-day");
    assert!(dt.years_after_2000() == y, "C15:new-accessor-year");
    assert!(month_index(dt.month()) == m_i, "C15:new-accessor-month");
    assert!(weekday_index(dt.weekday()) == w_i, "C15:new-accessor-weekday");
}

// Vacuity canary: must be refuted on every run.
#[kani::proof]
#[kani::unwind(1)]
fn c15_canary() {
    let v: u32 = kani::any();
    assert!(DateTime::try_from(v).is_err(), "CANARY:c15");
}
