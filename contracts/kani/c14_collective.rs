// C14 — login protocol-version views: lifting a version-N message into the collective (latest) type and lowering it
// again is the identity, and the protocol-parameterised API yields exactly the values and bytes of version N's codec.
// The symbolic version-N value x is obtained by decoding symbolic bytes with version N's own reader, so x ranges over
// every value that has an encoding within the buffer bound.
use crate::all::ProtocolVersion;
use crate::collective::CollectiveMessage;
use crate::private::Internal;
use crate::Message;
use std::io;

pub struct Out<const C: usize> {
    pub buf: [u8; C],
    pub len: usize,
}
impl<const C: usize> Out<C> {
    pub fn new() -> Self {
        Self { buf: [0; C], len: 0 }
    }
}
impl<const C: usize> io::Write for Out<C> {
    fn write(&mut self, data: &[u8]) -> io::Result<usize> {
        let k = data.len();
        if self.len + k <= C {
            self.buf[self.len..self.len + k].copy_from_slice(data);
        }
        self.len += k;
        Ok(k)
    }
    fn flush(&mut self) -> io::Result<()> {
        Ok(())
    }
}

macro_rules! view_contract {
    ($name:ident, $main:ty, $vassoc:ident, $from:ident, $to:ident, $pv:expr, $n:expr, $unwind:expr) => {
        #[kani::proof]
        #[kani::unwind($unwind)]
        fn $name() {
            type V = <$main as CollectiveMessage>::$vassoc;
            const N: usize = $n;
            let b: [u8; N] = kani::any();
            let n: usize = kani::any();
            kani::assume(n <= N);
            let mut r: &[u8] = &b[..n];
            let x = <V as Message>::read::<_, Internal>(&mut r);
            let used = n - r.len();
            let mut r2: &[u8] = &b[..n];
            let viap = <$main as CollectiveMessage>::read_protocol::<_, Internal>(&mut r2, $pv);
            let used2 = n - r2.len();
            match &x {
                Ok(x) => {
                    kani::cover!(true, "C14:cover-version-message-decoded");
                    let m = <$main as CollectiveMessage>::$from(x.clone());
                    let back = <$main as CollectiveMessage>::$to(&m);
                    assert!(back == *x, "C14:lift-then-lower-is-identity");
                    // write through the protocol-parameterised API == version N's own writer
                    let mut o1: Out<{ N + 8 }> = Out::new();
                    let mut o2: Out<{ N + 8 }> = Out::new();
                    assert!(m.write_protocol(&mut o1, $pv).is_ok(), "C14:write_protocol-succeeds");
                    assert!(<V as Message>::write(x, &mut o2).is_ok(), "C14:version-writer-succeeds");
                    assert!(o1.len == o2.len, "C14:write_protocol-emits-as-many-bytes-as-the-version-codec");
                    let k: usize = kani::any();
                    kani::assume(k < o1.len && k < N + 8);
                    assert!(o1.buf[k] == o2.buf[k], "C14:write_protocol-emits-the-bytes-of-the-version-codec");
                    // read through the protocol-parameterised API == lift(version N's own reader)
                    match &viap {
                        Ok(m2) => {
                            assert!(<$main as CollectiveMessage>::$to(m2) == *x, "C14:read_protocol-yields-the-lifted-version-value");
                            assert!(used2 == used, "C14:read_protocol-consumes-what-the-version-codec-consumes");
                        }
                        Err(_) => assert!(false, "C14:read_protocol-accepts-what-the-version-codec-accepts"),
                    }
                }
                Err(_) => {
                    assert!(viap.is_err(), "C14:read_protocol-rejects-what-the-version-codec-rejects");
                }
            }
            std::mem::forget(x);
            std::mem::forget(viap);
        }
    };
}

macro_rules! family {
    ($fam:ident, $main:ty, $n:expr, $unwind:expr) => {
        pub mod $fam {
            use super::*;
            view_contract!(v2, $main, Version2, from_version_2, to_version_2, ProtocolVersion::Two, $n, $unwind);
            view_contract!(v3, $main, Version3, from_version_3, to_version_3, ProtocolVersion::Three, $n, $unwind);
            view_contract!(v5, $main, Version5, from_version_5, to_version_5, ProtocolVersion::Five, $n, $unwind);
            view_contract!(v6, $main, Version6, from_version_6, to_version_6, ProtocolVersion::Six, $n, $unwind);
            view_contract!(v7, $main, Version7, from_version_7, to_version_7, ProtocolVersion::Seven, $n, $unwind);
        }
    };
}

// (family, collective type, buffer bound N in bytes, unwinding bound)  — N and the bound class are listed in props/c14.py
family!(logon_challenge_client, crate::all::CMD_AUTH_LOGON_CHALLENGE_Client, 40, 44);
family!(logon_challenge_server, crate::version_8::CMD_AUTH_LOGON_CHALLENGE_Server, 150, 40);
family!(logon_proof_client, crate::version_8::CMD_AUTH_LOGON_PROOF_Client, 120, 40);
family!(logon_proof_server, crate::version_8::CMD_AUTH_LOGON_PROOF_Server, 34, 40);
family!(reconnect_challenge_client, crate::all::CMD_AUTH_RECONNECT_CHALLENGE_Client, 40, 44);
family!(reconnect_challenge_server, crate::version_8::CMD_AUTH_RECONNECT_CHALLENGE_Server, 36, 40);
family!(reconnect_proof_client, crate::version_2::cmd_auth_reconnect_proof_client::CMD_AUTH_RECONNECT_PROOF_Client, 60, 40);
family!(reconnect_proof_server, crate::version_8::CMD_AUTH_RECONNECT_PROOF_Server, 8, 12);
family!(realm_list_client, crate::version_8::CMD_REALM_LIST_Client, 8, 12);
family!(realm_list_server, crate::version_8::CMD_REALM_LIST_Server, 40, 44);
family!(xfer_accept, crate::version_8::CMD_XFER_ACCEPT, 4, 8);
family!(xfer_cancel, crate::version_8::CMD_XFER_CANCEL, 4, 8);
family!(xfer_data, crate::version_8::CMD_XFER_DATA, 12, 16);
family!(xfer_initiate, crate::version_8::CMD_XFER_INITIATE, 40, 44);
family!(xfer_resume, crate::version_8::CMD_XFER_RESUME, 12, 16);

// -------------------------------------------------------------------------------------------------------
// Value-side contracts for CMD_AUTH_LOGON_CHALLENGE_Server (the family whose 120-150 byte encodings are beyond the
// bytes-side route): the version-N value is built field by field with symbolic contents; vector *lengths* are
// concrete (generator 1 byte, large_safe_prime 2 bytes) - reported as bounded.
// -------------------------------------------------------------------------------------------------------
pub mod logon_challenge_server_values {
    use super::*;
    type Main = crate::version_8::CMD_AUTH_LOGON_CHALLENGE_Server;

    fn any_v5_flag() -> crate::version_5::CMD_AUTH_LOGON_CHALLENGE_Server_SecurityFlag {
        use crate::version_5::*;
        let mut f = CMD_AUTH_LOGON_CHALLENGE_Server_SecurityFlag::empty();
        if kani::any() {
            f = f.set_pin(CMD_AUTH_LOGON_CHALLENGE_Server_SecurityFlag_Pin { pin_grid_seed: kani::any(), pin_salt: kani::any() });
        }
        if kani::any() {
            f = f.set_matrix_card(CMD_AUTH_LOGON_CHALLENGE_Server_SecurityFlag_MatrixCard {
                challenge_count: kani::any(), digit_count: kani::any(), height: kani::any(), seed: kani::any(), width: kani::any(),
            });
        }
        f
    }
    fn any_v3_flag() -> crate::version_3::CMD_AUTH_LOGON_CHALLENGE_Server_SecurityFlag {
        use crate::version_3::*;
        if kani::any() {
            CMD_AUTH_LOGON_CHALLENGE_Server_SecurityFlag::Pin { pin_grid_seed: kani::any(), pin_salt: kani::any() }
        } else {
            CMD_AUTH_LOGON_CHALLENGE_Server_SecurityFlag::None
        }
    }

    macro_rules! value_contract {
        ($name:ident, $wname:ident, $vassoc:ident, $from:ident, $to:ident, $pv:expr, $x:expr) => {
            #[kani::proof]
            #[kani::unwind(40)]
            fn $name() {
                type V = <Main as CollectiveMessage>::$vassoc;
                let x: V = $x;
                let m = <Main as CollectiveMessage>::$from(x.clone());
                let back = <Main as CollectiveMessage>::$to(&m);
                kani::cover!(true, "C14:cover-value-built");
                assert!(back == x, "C14:lift-then-lower-is-identity");
                std::mem::forget(x);
                std::mem::forget(m);
                std::mem::forget(back);
            }
            #[kani::proof]
            #[kani::unwind(40)]
            fn $wname() {
                type V = <Main as CollectiveMessage>::$vassoc;
                let x: V = $x;
                let m = <Main as CollectiveMessage>::$from(x.clone());
                let mut o1: Out<200> = Out::new();
                let mut o2: Out<200> = Out::new();
                assert!(m.write_protocol(&mut o1, $pv).is_ok(), "C14:write_protocol-succeeds");
                assert!(<V as Message>::write(&x, &mut o2).is_ok(), "C14:version-writer-succeeds");
                assert!(o1.len == o2.len, "C14:write_protocol-emits-as-many-bytes-as-the-version-codec");
                let k: usize = kani::any();
                kani::assume(k < o1.len && k < 200);
                assert!(o1.buf[k] == o2.buf[k], "C14:write_protocol-emits-the-bytes-of-the-version-codec");
                std::mem::forget(x);
                std::mem::forget(m);
            }
        };
    }
    value_contract!(v2, v2_write, Version2, from_version_2, to_version_2, ProtocolVersion::Two,
        crate::version_2::CMD_AUTH_LOGON_CHALLENGE_Server::Success {
            crc_salt: kani::any(), generator: vec![kani::any()], large_safe_prime: vec![kani::any(), kani::any()],
            salt: kani::any(), server_public_key: kani::any() });
    value_contract!(v3, v3_write, Version3, from_version_3, to_version_3, ProtocolVersion::Three,
        crate::version_3::CMD_AUTH_LOGON_CHALLENGE_Server::Success {
            crc_salt: kani::any(), generator: vec![kani::any()], large_safe_prime: vec![kani::any(), kani::any()],
            salt: kani::any(), security_flag: any_v3_flag(), server_public_key: kani::any() });
    value_contract!(v5, v5_write, Version5, from_version_5, to_version_5, ProtocolVersion::Five,
        crate::version_5::CMD_AUTH_LOGON_CHALLENGE_Server::Success {
            crc_salt: kani::any(), generator: vec![kani::any()], large_safe_prime: vec![kani::any(), kani::any()],
            salt: kani::any(), security_flag: any_v5_flag(), server_public_key: kani::any() });
    value_contract!(v6, v6_write, Version6, from_version_6, to_version_6, ProtocolVersion::Six,
        crate::version_5::CMD_AUTH_LOGON_CHALLENGE_Server::Success {
            crc_salt: kani::any(), generator: vec![kani::any()], large_safe_prime: vec![kani::any(), kani::any()],
            salt: kani::any(), security_flag: any_v5_flag(), server_public_key: kani::any() });
    value_contract!(v7, v7_write, Version7, from_version_7, to_version_7, ProtocolVersion::Seven,
        crate::version_5::CMD_AUTH_LOGON_CHALLENGE_Server::Success {
            crc_salt: kani::any(), generator: vec![kani::any()], large_safe_prime: vec![kani::any(), kani::any()],
            salt: kani::any(), security_flag: any_v5_flag(), server_public_key: kani::any() });
}

#[kani::proof]
#[kani::unwind(2)]
fn c14_canary() {
    let x: u8 = kani::any();
    assert!(x != 3, "CANARY:c14");
}
