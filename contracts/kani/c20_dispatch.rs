// C20 (dispatch part) — AreaTrigger::contains / verify_trigger against their definition, for the three
// expansions. The two float helpers are outside this contract (they are under the Verus contract over R):
// they are replaced by `#[kani::stub]`s that behave like uninterpreted, argument-order-sensitive predicates,
// so the contract pins *which* helper is called with *which* arguments in *which* order, and that the same
// map is required. Loop bound = table length (unwinding assertions on) => complete per table.
use crate::shared::vector3d_vanilla_tbc_wrath::Vector3d;

fn mix(acc: u32, v: f32, r: u32) -> u32 {
    (acc ^ v.to_bits().rotate_left(r)).rotate_left(5)
}
// order-sensitive pseudo-uninterpreted predicates
pub fn stub_is_within_square(player: Vector3d, square: Vector3d, length: f32, width: f32, height: f32, yaw: f32) -> bool {
    let mut a = 0x51ED_270B_u32;
    a = mix(a, player.x, 1);
    a = mix(a, player.y, 2);
    a = mix(a, player.z, 3);
    a = mix(a, square.x, 4);
    a = mix(a, square.y, 5);
    a = mix(a, square.z, 6);
    a = mix(a, length, 7);
    a = mix(a, width, 8);
    a = mix(a, height, 9);
    a = mix(a, yaw, 10);
    a & 1 == 1
}
pub fn stub_is_within_distance(from: Vector3d, to: Vector3d, distance: f32) -> bool {
    let mut a = 0x2545_F491_u32;
    a = mix(a, from.x, 11);
    a = mix(a, from.y, 12);
    a = mix(a, from.z, 13);
    a = mix(a, to.x, 14);
    a = mix(a, to.y, 15);
    a = mix(a, to.z, 16);
    a = mix(a, distance, 17);
    a & 1 == 1
}


use super::super::{verify_trigger, AreaTrigger, Trigger, TriggerResult};
use super::super::triggers::TRIGGERS;
use crate::@VER@::position::Position;
use crate::@VER@::Map;

fn any_f32() -> f32 {
    f32::from_bits(kani::any())
}
fn any_map() -> Map {
    let v = Map::variants();
    let i: usize = kani::any();
    kani::assume(i < v.len());
    v[i]
}
fn any_position() -> Position {
    Position::new(any_map(), any_f32(), any_f32(), any_f32(), any_f32())
}
fn v3(p: Position) -> Vector3d {
    Vector3d { x: p.x, y: p.y, z: p.z }
}
/// definition of containment in terms of the two (abstract) shape predicates
fn spec_contains(t: &AreaTrigger, player: Position) -> bool {
    match *t {
        AreaTrigger::Circle { position, radius } => {
            position.map == player.map && stub_is_within_distance(v3(position), v3(player), radius)
        }
        AreaTrigger::Square { position, length, width, height, yaw } => {
            position.map == player.map && stub_is_within_square(v3(player), v3(position), length, width, height, yaw)
        }
    }
}

#[kani::proof]
#[kani::unwind(2)]
#[kani::stub(crate::extended::top_level::geometry::is_within_square, stub_is_within_square)]
#[kani::stub(crate::extended::top_level::geometry::is_within_distance, stub_is_within_distance)]
fn c20_contains_contract() {
    let player = any_position();
    let pos = any_position();
    let t = if kani::any() {
        AreaTrigger::Circle { position: pos, radius: any_f32() }
    } else {
        AreaTrigger::Square { position: pos, length: any_f32(), width: any_f32(), height: any_f32(), yaw: any_f32() }
    };
    let got = t.contains(player);
    kani::cover!(got, "C20:cover-contains-true");
    kani::cover!(!got, "C20:cover-contains-false");
    assert!(got == spec_contains(&t, player), "C20:contains-iff-same-map-and-shape-test-on-(player,trigger)");
}

/// abstract, order-sensitive stand-in for `AreaTrigger::contains` used by the lookup contract only
/// (`contains` itself is under c20_contains_contract)
pub fn stub_contains(t: &AreaTrigger, player: Position) -> bool {
    let mut a = match *t {
        AreaTrigger::Circle { position, radius } => mix(mix(0x1234_5678, position.x, 1), radius, 2),
        AreaTrigger::Square { position, length, .. } => mix(mix(0x0BAD_CAFE, position.y, 3), length, 4),
    };
    a = mix(a, player.x, 5);
    a = mix(a, player.y, 6);
    a = mix(a, player.z, 7);
    a & 1 == 1
}

type Entry = (u32, (AreaTrigger, &'static [Trigger]));

#[kani::proof]
#[kani::unwind(@UNWIND@)]
#[kani::stub(AreaTrigger::contains, stub_contains)]
fn c20_verify_trigger_contract() {
    let n = TRIGGERS.len();
    assert!(n == @N@, "C20:table-length-matches-unwinding-bound");
    let player = any_position();
    let id: u32 = kani::any();
    let j: usize = kani::any();
    kani::assume(j < n);
    let res = verify_trigger(player, id);
    match res {
        TriggerResult::NotFound => {
            kani::cover!(true, "C20:cover-not-found");
            assert!(TRIGGERS[j].0 != id, "C20:not-found-only-for-absent-ids");
        }
        TriggerResult::Success(t) | TriggerResult::NotInsideTrigger(t) => {
            // index of the returned entry, recovered from its address (no loop on the specification side)
            let base = &TRIGGERS[0].1 as *const (AreaTrigger, &'static [Trigger]) as usize;
            let addr = t as *const (AreaTrigger, &'static [Trigger]) as usize;
            let k = (addr - base) / core::mem::size_of::<Entry>();
            assert!(k < n && core::ptr::eq(t, &TRIGGERS[k].1), "C20:result-is-a-table-entry");
            assert!(TRIGGERS[k].0 == id, "C20:result-is-an-entry-of-that-id");
            assert!(j >= k || TRIGGERS[j].0 != id, "C20:result-is-the-first-entry-of-that-id");
            let inside = stub_contains(&t.0, player);
            match res {
                TriggerResult::Success(_) => {
                    kani::cover!(true, "C20:cover-success");
                    assert!(inside, "C20:success-iff-contained");
                }
                _ => {
                    kani::cover!(true, "C20:cover-not-inside");
                    assert!(!inside, "C20:outside-iff-not-contained");
                }
            }
        }
    }
}

#[kani::proof]
#[kani::unwind(2)]
fn c20_canary() {
    let a: u32 = kani::any();
    assert!(mix(a, 1.0, 3) != 7, "CANARY:c20");
}
