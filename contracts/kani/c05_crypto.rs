// C05 — header encryption is transparent. Contracts on wow_world_messages' encrypted header getters,
// default encrypted writers, encrypted opcode-enum readers and expect_*_encryption helpers, checked
// against the *real* wow_srp 0.7.0 cipher code (vanilla/tbc xor-add stream, wrath RC4). The cipher halves
// are created in an arbitrary state (any key / any S-box, any position) that is equal on both peers; every
// contract re-establishes that equality, which is the inductive invariant for whole message sequences.
use super::c02_framing::*;
use super::framing_spec::*;
use crate::errors::ExpectedOpcodeError;

macro_rules! same_state {
    ($e:expr, $d:expr, $n:expr) => {{
        let es = $e.verif_state();
        let ds = $d.verif_state();
        let k: usize = kani::any();
        kani::assume(k < $n);
        es.0[k] == ds.0[k] && es.1 == ds.1 && es.2 == ds.2
    }};
}

// (constructor of an encrypter/decrypter pair in one arbitrary common state)
macro_rules! pair_xor {
    ($enc:path, $dec:path, $klen:expr) => {{
        let key: [u8; $klen] = kani::any();
        let idx: u8 = kani::any();
        let prev: u8 = kani::any();
        kani::assume((idx as usize) < $klen);
        (<$enc>::verif_new(key, idx, prev), <$dec>::verif_new(key, idx, prev), $klen)
    }};
}
macro_rules! pair_rc4 {
    ($enc:path, $dec:path) => {{
        let st: [u8; 256] = kani::any();
        let i: u8 = kani::any();
        let j: u8 = kani::any();
        (<$enc>::verif_new(st, i, j), <$dec>::verif_new(st, i, j), 256_usize)
    }};
}

// -------------------------------------------------------------------------------------------
// 1. encrypted header getters: ciphertext written == Enc(spec_header), nothing else written,
//    both cipher states advance equally. Full range of body lengths and opcodes, any cipher state.
// -------------------------------------------------------------------------------------------
macro_rules! enc_header_contract {
    ($(#[$at:meta])* $name:ident, $ver:expr, $dir:expr, $tr:path, $sizefn:ident, $getter:path, $szty:ty, $hi:expr, $pair:expr) => {
        #[kani::proof]
        #[kani::unwind(9)]
        $(#[$at])*
        fn $name() {
            let (mut e, mut d, klen) = $pair;
            let n: u32 = kani::any();
            kani::assume(n <= $hi);
            let opcode: u16 = kani::any();
            let m = Dummy { n, body: [0; DUMMY_BODY], got_len: 0 };
            let size = <Dummy as $tr>::$sizefn(&m);
            let mut s = Sink::new();
            let r = $getter(&mut s, opcode, size as $szty, &mut e);
            assert!(r.is_ok(), "C05:encrypted-header-writer-returns-ok");
            let hl = spec_header_len($ver, $dir, n);
            assert!(s.len == hl, "C05:encrypted-header-length");
            let mut plain = [0_u8; 6];
            let mut i = 0;
            while i < hl {
                plain[i] = s.buf[i];
                i += 1;
            }
            d.decrypt(&mut plain[..hl]);
            let want = spec_header($ver, $dir, opcode as u32, n);
            let k: usize = kani::any();
            kani::assume(k < hl);
            kani::cover!(hl == 5 || !($ver == Ver::Wrath && $dir == Dir::Server), "C05:cover-large-header");
            kani::cover!(hl != 5, "C05:cover-small-header");
            assert!(plain[k] == want[k], "C05:encrypted-header-decrypts-to-plain-header");
            assert!(same_state!(e, d, klen), "C05:cipher-states-in-step-after-write");
        }
    };
}

enc_header_contract!(c05_header_vanilla_server, Ver::Vanilla, Dir::Server, crate::vanilla::ServerMessage, server_size,
    crate::util::vanilla_get_encrypted_server, u16, 0xFFFB,
    pair_xor!(wow_srp::vanilla_header::EncrypterHalf, wow_srp::vanilla_header::DecrypterHalf, 40));
enc_header_contract!(c05_header_vanilla_client, Ver::Vanilla, Dir::Client, crate::vanilla::ClientMessage, client_size,
    crate::util::vanilla_get_encrypted_client, u16, 0xFFF9,
    pair_xor!(wow_srp::vanilla_header::EncrypterHalf, wow_srp::vanilla_header::DecrypterHalf, 40));
enc_header_contract!(c05_header_tbc_server, Ver::Tbc, Dir::Server, crate::tbc::ServerMessage, server_size,
    crate::util::tbc_get_encrypted_server, u16, 0xFFFB,
    pair_xor!(wow_srp::tbc_header::EncrypterHalf, wow_srp::tbc_header::DecrypterHalf, 20));
enc_header_contract!(c05_header_tbc_client, Ver::Tbc, Dir::Client, crate::tbc::ClientMessage, client_size,
    crate::util::tbc_get_encrypted_client, u16, 0xFFF9,
    pair_xor!(wow_srp::tbc_header::EncrypterHalf, wow_srp::tbc_header::DecrypterHalf, 20));
enc_header_contract!(#[kani::stub(wow_srp::wrath_header::inner_crypto::rc4::Rc4::apply_keystream, wow_srp::wrath_header::inner_crypto::rc4::Rc4::verif_stub_apply_keystream)]
    c05_header_wrath_server, Ver::Wrath, Dir::Server, crate::wrath::ServerMessage, server_size,
    crate::util::wrath_get_encrypted_server, u32, 0x7F_FFFD,
    pair_rc4!(wow_srp::wrath_header::ServerEncrypterHalf, wow_srp::wrath_header::ClientDecrypterHalf));
enc_header_contract!(#[kani::stub(wow_srp::wrath_header::inner_crypto::rc4::Rc4::apply_keystream, wow_srp::wrath_header::inner_crypto::rc4::Rc4::verif_stub_apply_keystream)]
    c05_header_wrath_client, Ver::Wrath, Dir::Client, crate::wrath::ClientMessage, client_size,
    crate::util::wrath_get_encrypted_client, u16, 0xFFF9,
    pair_rc4!(wow_srp::wrath_header::ClientEncrypterHalf, wow_srp::wrath_header::ServerDecrypterHalf));

// -------------------------------------------------------------------------------------------
// 2. default encrypted writers: body bytes are the plain body bytes (only the header differs from the
//    unencrypted writer, whose output is spec_header ++ body by C02), header decrypts to spec_header.
//    Body length concrete 0..=8 per call (bounded stand-in), contents and cipher state symbolic.
// -------------------------------------------------------------------------------------------
macro_rules! enc_writer_contract {
    ($(#[$at:meta])* $name:ident, $ver:expr, $dir:expr, $tr:path, $wfn:ident, $pair:expr) => {
        #[kani::proof]
        #[kani::unwind(17)]
        $(#[$at])*
        fn $name() {
            fn one(n: u32) {
                let (mut e, mut d, klen) = $pair;
                let m = Dummy { n, body: kani::any(), got_len: 0 };
                let mut s = Sink::new();
                let r = <Dummy as $tr>::$wfn(&m, &mut s, &mut e);
                assert!(r.is_ok(), "C05:encrypted-writer-returns-ok");
                let hl = spec_header_len($ver, $dir, n);
                assert!(s.len == hl + n as usize, "C05:encrypted-writer-length-equals-plain");
                let mut plain = [0_u8; 6];
                let mut i = 0;
                while i < hl {
                    plain[i] = s.buf[i];
                    i += 1;
                }
                d.decrypt(&mut plain[..hl]);
                let want = spec_header($ver, $dir, DUMMY_OPCODE, n);
                let k: usize = kani::any();
                kani::assume(k < s.len && k < SINK_CAP);
                if k < hl {
                    assert!(plain[k] == want[k], "C05:encrypted-writer-header-decrypts-to-plain-header");
                } else {
                    assert!(s.buf[k] == m.body[k - hl], "C05:body-bytes-not-encrypted");
                }
                assert!(same_state!(e, d, klen), "C05:cipher-states-in-step-after-message");
            }
            one(0);
            one(1);
            one(2);
            one(5);
            one(8);
            kani::cover!(true, "C05:cover-encrypted-writer-done");
        }
    };
}
enc_writer_contract!(c05_writer_vanilla_server, Ver::Vanilla, Dir::Server, crate::vanilla::ServerMessage, write_encrypted_server,
    pair_xor!(wow_srp::vanilla_header::EncrypterHalf, wow_srp::vanilla_header::DecrypterHalf, 40));
enc_writer_contract!(c05_writer_vanilla_client, Ver::Vanilla, Dir::Client, crate::vanilla::ClientMessage, write_encrypted_client,
    pair_xor!(wow_srp::vanilla_header::EncrypterHalf, wow_srp::vanilla_header::DecrypterHalf, 40));
enc_writer_contract!(c05_writer_tbc_server, Ver::Tbc, Dir::Server, crate::tbc::ServerMessage, write_encrypted_server,
    pair_xor!(wow_srp::tbc_header::EncrypterHalf, wow_srp::tbc_header::DecrypterHalf, 20));
enc_writer_contract!(c05_writer_tbc_client, Ver::Tbc, Dir::Client, crate::tbc::ClientMessage, write_encrypted_client,
    pair_xor!(wow_srp::tbc_header::EncrypterHalf, wow_srp::tbc_header::DecrypterHalf, 20));
enc_writer_contract!(#[kani::stub(wow_srp::wrath_header::inner_crypto::rc4::Rc4::apply_keystream, wow_srp::wrath_header::inner_crypto::rc4::Rc4::verif_stub_apply_keystream)]
    c05_writer_wrath_server, Ver::Wrath, Dir::Server, crate::wrath::ServerMessage, write_encrypted_server,
    pair_rc4!(wow_srp::wrath_header::ServerEncrypterHalf, wow_srp::wrath_header::ClientDecrypterHalf));
enc_writer_contract!(#[kani::stub(wow_srp::wrath_header::inner_crypto::rc4::Rc4::apply_keystream, wow_srp::wrath_header::inner_crypto::rc4::Rc4::verif_stub_apply_keystream)]
    c05_writer_wrath_client, Ver::Wrath, Dir::Client, crate::wrath::ClientMessage, write_encrypted_client,
    pair_rc4!(wow_srp::wrath_header::ClientEncrypterHalf, wow_srp::wrath_header::ServerDecrypterHalf));

// -------------------------------------------------------------------------------------------
// 3. encrypted readers: given Enc(header) for *any* plain header, the decrypting reader consumes
//    header + announced body, hands (opcode, body length, whole body) on, and leaves the decrypter
//    in step with the encrypter.
// -------------------------------------------------------------------------------------------
macro_rules! enc_reader_contract {
    ($(#[$at:meta])* $name:ident, $ver:expr, $dir:expr, $ty:path, $stub:ident, $pair:expr) => {
        #[kani::proof]
        #[kani::unwind(8)]
        #[kani::stub($ty::read_opcodes, $stub)]
        $(#[$at])*
        fn $name() {
            let (mut e, mut d, klen) = $pair;
            let plain: [u8; 6] = kani::any();
            let a = spec_parse_header($ver, $dir, &plain);
            kani::assume(a.field >= spec_opcode_len($dir));
            let body = (a.field - spec_opcode_len($dir)) as u64;
            let mut cipher = plain;
            e.encrypt(&mut cipher[..a.header_len as usize]);
            let mut rec = Rec { bytes: cipher, pos: 0 };
            let r = <$ty>::read_encrypted(&mut rec, &mut d);
            match &r {
                Err(ExpectedOpcodeError::Opcode { opcode, name, size }) => {
                    kani::cover!(a.header_len == 5 || !($ver == Ver::Wrath && $dir == Dir::Server), "C05:cover-reader-large-header");
                    kani::cover!(a.header_len != 5, "C05:cover-reader-small-header");
                    assert!(*opcode == a.opcode, "C05:decrypting-reader-opcode");
                    assert!(*size as u64 == body, "C05:decrypting-reader-body-size");
                    assert!(name.is_some(), "C05:decrypting-reader-buffer-holds-whole-body");
                }
                _ => assert!(false, "C05:decrypting-reader-reaches-dispatcher"),
            }
            assert!(rec.pos == a.header_len + body, "C05:decrypting-reader-consumes-announced");
            assert!(same_state!(e, d, klen), "C05:cipher-states-in-step-after-read");
            std::mem::forget(r);
        }
    };
}
enc_reader_contract!(c05_reader_vanilla_client, Ver::Vanilla, Dir::Client, crate::vanilla::opcodes::ClientOpcodeMessage, stub_vanilla_client,
    pair_xor!(wow_srp::vanilla_header::EncrypterHalf, wow_srp::vanilla_header::DecrypterHalf, 40));
enc_reader_contract!(c05_reader_vanilla_server, Ver::Vanilla, Dir::Server, crate::vanilla::opcodes::ServerOpcodeMessage, stub_vanilla_server,
    pair_xor!(wow_srp::vanilla_header::EncrypterHalf, wow_srp::vanilla_header::DecrypterHalf, 40));
enc_reader_contract!(c05_reader_tbc_client, Ver::Tbc, Dir::Client, crate::tbc::opcodes::ClientOpcodeMessage, stub_tbc_client,
    pair_xor!(wow_srp::tbc_header::EncrypterHalf, wow_srp::tbc_header::DecrypterHalf, 20));
enc_reader_contract!(c05_reader_tbc_server, Ver::Tbc, Dir::Server, crate::tbc::opcodes::ServerOpcodeMessage, stub_tbc_server,
    pair_xor!(wow_srp::tbc_header::EncrypterHalf, wow_srp::tbc_header::DecrypterHalf, 20));
enc_reader_contract!(#[kani::stub(wow_srp::wrath_header::inner_crypto::rc4::Rc4::apply_keystream, wow_srp::wrath_header::inner_crypto::rc4::Rc4::verif_stub_apply_keystream)]
    c05_reader_wrath_client, Ver::Wrath, Dir::Client, crate::wrath::opcodes::ClientOpcodeMessage, stub_wrath_client,
    pair_rc4!(wow_srp::wrath_header::ClientEncrypterHalf, wow_srp::wrath_header::ServerDecrypterHalf));
enc_reader_contract!(#[kani::stub(wow_srp::wrath_header::inner_crypto::rc4::Rc4::apply_keystream, wow_srp::wrath_header::inner_crypto::rc4::Rc4::verif_stub_apply_keystream)]
    c05_reader_wrath_server, Ver::Wrath, Dir::Server, crate::wrath::opcodes::ServerOpcodeMessage, stub_wrath_server,
    pair_rc4!(wow_srp::wrath_header::ServerEncrypterHalf, wow_srp::wrath_header::ClientDecrypterHalf));

macro_rules! enc_expect_contract {
    ($(#[$at:meta])* $name:ident, $ver:expr, $dir:expr, $f:path, $pair:expr) => {
        #[kani::proof]
        #[kani::unwind(8)]
        $(#[$at])*
        fn $name() {
            let (mut e, mut d, klen) = $pair;
            let plain: [u8; 6] = kani::any();
            let a = spec_parse_header($ver, $dir, &plain);
            kani::assume(a.field >= spec_opcode_len($dir));
            let body = (a.field - spec_opcode_len($dir)) as u64;
            let mut cipher = plain;
            e.encrypt(&mut cipher[..a.header_len as usize]);
            let mut rec = Rec { bytes: cipher, pos: 0 };
            let r: Result<Dummy, ExpectedOpcodeError> = $f(&mut rec, &mut d);
            match &r {
                Ok(m) => {
                    kani::cover!(true, "C05:cover-expect-ok");
                    assert!(a.opcode == DUMMY_OPCODE, "C05:expect-accepts-only-own-opcode");
                    assert!(m.n as u64 == body, "C05:expect-body-size-announced");
                    assert!(m.got_len == body, "C05:expect-buffer-holds-whole-body");
                }
                Err(ExpectedOpcodeError::Opcode { opcode, .. }) => {
                    assert!(a.opcode != DUMMY_OPCODE, "C05:expect-accepts-own-opcode");
                    assert!(*opcode == a.opcode, "C05:expect-reports-opcode");
                }
                _ => assert!(false, "C05:expect-no-other-error"),
            }
            assert!(rec.pos == a.header_len + body, "C05:expect-consumes-announced");
            assert!(same_state!(e, d, klen), "C05:cipher-states-in-step-after-expect");
            std::mem::forget(r);
        }
    };
}
enc_expect_contract!(c05_expect_vanilla_server, Ver::Vanilla, Dir::Server, crate::vanilla::expect_server_message_encryption,
    pair_xor!(wow_srp::vanilla_header::EncrypterHalf, wow_srp::vanilla_header::DecrypterHalf, 40));
enc_expect_contract!(c05_expect_vanilla_client, Ver::Vanilla, Dir::Client, crate::vanilla::expect_client_message_encryption,
    pair_xor!(wow_srp::vanilla_header::EncrypterHalf, wow_srp::vanilla_header::DecrypterHalf, 40));
enc_expect_contract!(c05_expect_tbc_server, Ver::Tbc, Dir::Server, crate::tbc::expect_server_message_encryption,
    pair_xor!(wow_srp::tbc_header::EncrypterHalf, wow_srp::tbc_header::DecrypterHalf, 20));
enc_expect_contract!(c05_expect_tbc_client, Ver::Tbc, Dir::Client, crate::tbc::expect_client_message_encryption,
    pair_xor!(wow_srp::tbc_header::EncrypterHalf, wow_srp::tbc_header::DecrypterHalf, 20));
enc_expect_contract!(#[kani::stub(wow_srp::wrath_header::inner_crypto::rc4::Rc4::apply_keystream, wow_srp::wrath_header::inner_crypto::rc4::Rc4::verif_stub_apply_keystream)]
    c05_expect_wrath_server, Ver::Wrath, Dir::Server, crate::wrath::expect_server_message_encryption,
    pair_rc4!(wow_srp::wrath_header::ServerEncrypterHalf, wow_srp::wrath_header::ClientDecrypterHalf));
enc_expect_contract!(#[kani::stub(wow_srp::wrath_header::inner_crypto::rc4::Rc4::apply_keystream, wow_srp::wrath_header::inner_crypto::rc4::Rc4::verif_stub_apply_keystream)]
    c05_expect_wrath_client, Ver::Wrath, Dir::Client, crate::wrath::expect_client_message_encryption,
    pair_rc4!(wow_srp::wrath_header::ClientEncrypterHalf, wow_srp::wrath_header::ServerDecrypterHalf));

// -------------------------------------------------------------------------------------------
// 0. The contract of the real RC4 keystream application that the Wrath message-level contracts rely on
//    (they run with `apply_keystream` replaced by an abstract stream cipher, see lib/srp.py):
//    from equal states, the mask XOR-ed onto the data and the resulting state depend on the state and the
//    number of bytes only — not on the data, and not on how the bytes are split over calls.
//    Proved on the real wow_srp RC4 with a fully symbolic S-box, i and j.
// -------------------------------------------------------------------------------------------
#[kani::proof]
#[kani::unwind(8)]
fn c05_rc4_mask_and_state_depend_on_state_and_length_only() {
    let (mut e, mut d, klen) = pair_rc4!(wow_srp::wrath_header::ServerEncrypterHalf, wow_srp::wrath_header::ClientDecrypterHalf);
    let a: [u8; 6] = kani::any();
    let b: [u8; 6] = kani::any();
    let l: usize = kani::any();
    kani::assume(l == 1 || l == 4 || l == 5 || l == 6);
    let mut a2 = a;
    let mut b2 = b;
    e.encrypt(&mut a2[..l]);
    d.decrypt(&mut b2[..l]);
    let k: usize = kani::any();
    kani::assume(k < l);
    assert!(a2[k] ^ a[k] == b2[k] ^ b[k], "C05:rc4-keystream-independent-of-data");
    assert!(same_state!(e, d, klen), "C05:rc4-next-state-depends-on-state-and-length-only");
}
#[kani::proof]
#[kani::unwind(8)]
fn c05_rc4_split_calls_compose() {
    let (mut e, mut d, klen) = pair_rc4!(wow_srp::wrath_header::ServerEncrypterHalf, wow_srp::wrath_header::ClientDecrypterHalf);
    let a: [u8; 5] = kani::any();
    let mut a2 = a;
    let mut b2 = a;
    e.encrypt(&mut a2);
    d.decrypt(&mut b2[..4]);
    d.decrypt(&mut b2[4..]);
    let k: usize = kani::any();
    kani::assume(k < 5);
    assert!(a2[k] == b2[k], "C05:rc4-split-calls-equal-one-call");
    assert!(same_state!(e, d, klen), "C05:rc4-split-calls-same-state");
}

// Vacuity canary: must be refuted on every run.
#[kani::proof]
#[kani::unwind(9)]
fn c05_canary() {
    let (mut e, mut d, klen) = pair_xor!(wow_srp::vanilla_header::EncrypterHalf, wow_srp::vanilla_header::DecrypterHalf, 40);
    let mut b = [1_u8, 2, 3, 4];
    e.encrypt(&mut b);
    assert!(b[0] == 1, "CANARY:c05");
}
