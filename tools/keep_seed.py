#!/usr/bin/env python3
"""keep_seed.py <ID> <seed_out_dir> <confirmed-by text> <detected: check output summary>  -> /verif/seeded/<ID>[_k]/"""
import json, os, shutil, sys
pid, src, confirmed, detected = sys.argv[1:5]
base = os.path.join("/verif/seeded", pid)
d = base
k = 1
while os.path.exists(d):
    k += 1
    d = "%s_%d" % (base, k)
os.makedirs(d)
for f in os.listdir(src):
    if os.path.isfile(os.path.join(src, f)):
        shutil.copy(os.path.join(src, f), d)
m = {}
mp = os.path.join(d, "meta.json")
if os.path.exists(mp):
    try:
        m = json.load(open(mp))
    except Exception:
        m = {"agent_meta_unparsed": open(mp).read()[:2000]}
m["property"] = pid
m["confirmed_by_builder"] = confirmed
m["check_result"] = detected
json.dump(m, open(mp, "w"), indent=1)
print(d)
