#!/usr/bin/env python3
"""Measures every loop-free container contract once (status, seconds) -> container_costs.json (committed; used to keep the
quick tier within budget and to exclude contracts that exceed the per-harness time/memory budget). Not a check."""
import json
import os
import sys
sys.path.insert(0, os.path.dirname(os.path.dirname(os.path.abspath(__file__))))
from lib import vlib
from props import containers_common as cc

out = sys.argv[1] if len(sys.argv) > 1 else os.path.join(vlib.VERIF, "container_costs.json")
timeout = int(sys.argv[2]) if len(sys.argv) > 2 else 600
jobs = int(sys.argv[3]) if len(sys.argv) > 3 else 8
os.environ["VERIF_IGNORE_COSTS"] = "1"
cc.load_costs = lambda: {}
bs, meta = cc.build("thorough", 0, "C01")
b = bs[0]
b.jobs = jobs
b.harness_timeout = timeout
scratch = vlib.make_scratch()
try:
    cc.pre_inject(scratch)
    vlib.inject(scratch, b.crate, b.modules)
    names = [n for n in b.specs if not b.specs[n].get("canary")]
    res, m = vlib.kani_run(scratch, b.crate, names, features=b.features, jobs=b.jobs, harness_timeout=b.harness_timeout,
                           wall_timeout=12 * 3600, logname="measure-containers.log")
    costs = {}
    for n, r in res.items():
        costs[n.split("::")[-1]] = dict(status=r.status, time_s=round(r.time_s, 1), failed=[d for d, _ in r.failed][:6])
    json.dump(costs, open(out, "w"), indent=0, sort_keys=True)
    print("measured", len(costs), "->", out)
finally:
    vlib.drop_scratch(scratch)
