#!/usr/bin/env python3
"""Measures every container contract once (status, seconds) in chunks -> container_costs.json (committed; used to keep the
quick tier within budget and to leave out contracts that exceed the per-harness time/memory budget). Not a check.
usage: measure_containers.py <out.json> <timeout_s> <jobs> [chunk]"""
import json
import os
import sys
sys.path.insert(0, os.path.dirname(os.path.dirname(os.path.abspath(__file__))))
from lib import vlib
from props import containers_common as cc

out = sys.argv[1]
timeout = int(sys.argv[2])
jobs = int(sys.argv[3])
chunk = int(sys.argv[4]) if len(sys.argv) > 4 else 120
cc.load_costs = lambda: {}
os.environ["VERIF_INCLUDE_UNMEASURED"] = "1"
prefix = sys.argv[5] if len(sys.argv) > 5 else ""
bs, meta = cc.build("thorough", 0, "C01")
b = bs[0]
costs = json.load(open(out)) if os.path.exists(out) else {}
names = [n for n in b.specs if not b.specs[n].get("canary") and "containers::" in n and n.split("::")[-1] not in costs
         and n.split("::")[-1].startswith(prefix)]
print("to measure:", len(names), flush=True)
scratch = vlib.make_scratch()
try:
    cc.pre_inject(scratch)
    vlib.inject(scratch, b.crate, b.modules)
    for i in range(0, len(names), chunk):
        part = names[i:i + chunk]
        res, m = vlib.kani_run(scratch, b.crate, part, features=b.features, jobs=jobs, harness_timeout=timeout,
                               wall_timeout=3 * 3600, logname="measure-containers-%d.log" % i)
        for n, r in res.items():
            if r.status == "missing":
                continue
            costs[n.split("::")[-1]] = dict(status=r.status, time_s=round(r.time_s, 1), failed=[d for d, _ in r.failed][:6])
        json.dump(costs, open(out, "w"), indent=0, sort_keys=True)
        print("measured", len(costs), flush=True)
finally:
    vlib.drop_scratch(scratch)
