#!/bin/sh
# runs every registered check once (sequentially) and prints rc + wall time; usage: run_all.sh [quick|thorough] [ids...]
TIER="${1:-quick}"; shift
IDS="${@:-C15 C16 C20 C02 C05 C11 C12 C01 C03 C04 C09 C13 C14}"
cd "$(dirname "$0")/.." && mkdir -p logs evidence replays
for id in $IDS; do
  s=$(date +%s)
  VERIF_SEED=1 ./check $id --tier $TIER > logs/all_$id.out 2>&1; rc=$?
  e=$(date +%s)
  echo "$id rc=$rc wall=$((e-s))s $(grep -c '^KNOWN' logs/all_$id.out) known; $(grep -E '^\[C' logs/all_$id.out)"
  grep -E "^VIOLATION|^UNDECIDED" logs/all_$id.out | cut -c1-220 | head -5
done
