#!/bin/sh
# usage: confirm_seed.sh <worktree> <seed_out_dir> <crate> "<features>" <demo_src> <demo_dest_rel> <test_target>
# Confirms in the scratch worktree: existing crate tests pass with the change; demo fails with it and passes without it.
WT="$1"; OUT="$2"; CRATE="$3"; FEAT="$4"; DEMO="$5"; DEST="$6"; TGT="$7"
cd "$WT" || exit 3
git checkout -q -- . ; git apply "$OUT/patch.diff" || { echo "PATCH-FAILS"; exit 3; }
mkdir -p "$(dirname "$DEST")"; cp "$OUT/$DEMO" "$DEST"
echo "== existing tests with change"; cargo test -p "$CRATE" --features "$FEAT" --offline -j 6 --lib 2>&1 | grep -E "^test result|error\[" | head -5
echo "== demo with change"; cargo test -p "$CRATE" --features "$FEAT" --offline -j 6 --test "$TGT" 2>&1 | grep -E "^test result|error\[" | head -3
git checkout -q -- .
echo "== demo without change"; cargo test -p "$CRATE" --features "$FEAT" --offline -j 6 --test "$TGT" 2>&1 | grep -E "^test result|error\[" | head -3
rm -f "$DEST"
