#!/bin/sh
# usage: try_seed.sh <patch> <prop> [tier]   — applies a seeded change to /repo, runs the check, undoes it
set -u
P="$1"; ID="$2"; TIER="${3:-quick}"
cd /repo && git apply "$P" || { echo "patch does not apply"; exit 3; }
cd /verif && ./check "$ID" --tier "$TIER" > /tmp/try_seed_$ID.out 2>&1; RC=$?
git -C /repo checkout -- . 
grep -E "^VIOLATION|^KNOWN|^\[C|^UNDECIDED" /tmp/try_seed_$ID.out | cut -c1-260 | head -20
echo "rc=$RC"
