"""C04(c): unknown opcodes are rejected, known ones reach the decoder of the message the wowm assigns to that number.
The `match opcode { .. }` of each world `read_opcodes` is cut out of the current source every run and reduced to a
*slice*: each arm's right-hand side is replaced by the message type it names (dropped: the arm bodies - they cannot
influence which arm is selected because every pattern is a single integer literal, which the extractor checks; the
default arm must build `ExpectedOpcodeError::Opcode { opcode, .. }`). The slice and the table read independently from the
wowm corpus are then compared for ALL opcode values by Kani (loop-free, complete)."""
import os
import re
from lib import vlib
from spec import wowm
from gen import containers

ARM = re.compile(r"^\s*(0x[0-9A-Fa-f]+|\d+) => (.*),\s*$")
DEFAULT = re.compile(r"^\s*_ => Err\(crate::errors::ExpectedOpcodeError::Opcode\{ opcode(?:: opcode\.into\(\))?, name: opcode_to_name\(opcode(?:\.into\(\))?\), size: body_size \}\),\s*$")


def cut(src, which):
    """which: 0 = first read_opcodes (client), 1 = second (server). Returns (opcode type, [(literal, message name)])."""
    ms = list(re.finditer(r"fn read_opcodes\(opcode: (u16|u32), body_size: u32, mut r: &\[u8\]\) -> Result<Self, crate::errors::ExpectedOpcodeError> \{\n\s*match opcode \{\n", src))
    if len(ms) != 2:
        raise vlib.AnchorLost("expected two read_opcodes, found %d" % len(ms))
    m = ms[which]
    arms = []
    pos = m.end()
    seen_default = False
    for line in src[pos:].split("\n"):
        if line.strip() == "}":
            break
        a = ARM.match(line)
        if a:
            rhs = a.group(2)
            names = (set(re.findall(r"<(\w+) as crate::Message>", rhs)) or set(re.findall(r'assert_empty\(body_size, opcode, "(\w+)"\)', rhs))
                     or set(re.findall(r"Self::(\w+)", rhs)))
            if len(names) != 1:
                raise vlib.AnchorLost("arm %s does not name exactly one message: %s" % (a.group(1), rhs[:80]))
            arms.append((int(a.group(1), 0), names.pop()))
            continue
        if DEFAULT.match(line):
            seen_default = True
            continue
        raise vlib.AnchorLost("unexpected line in read_opcodes match: %r" % line[:120])
    if not seen_default:
        raise vlib.AnchorLost("default arm of read_opcodes does not report the opcode")
    return m.group(1), arms


def declared(corpus, ver, direction):
    """{opcode: message name} from the wowm corpus for one expansion and direction ('c' or 's')."""
    res = containers.Resolver(corpus, ver)
    kinds = ("cmsg", "msg") if direction == "c" else ("smsg", "msg")
    out = {}
    for c in corpus.containers:
        if c["kind"] in kinds and res.covers(c):
            if c["opcode"] is None:
                raise vlib.AnchorLost("message %s without opcode" % c["name"])
            if any(k == "skip_codegen" for k, _ in c["tags"]):
                continue
            if c["opcode"] in out and out[c["opcode"]] != c["name"]:
                raise vlib.AnchorLost("opcode %#x declared twice for %s" % (c["opcode"], ver))
            out[c["opcode"]] = c["name"]
    return out


def gen(repo):
    corpus = wowm.Corpus(repo)
    code = ["// generated each run by gen/opcodes.py: slices of read_opcodes + tables from the wowm corpus\n#![allow(non_snake_case, unused)]\n"]
    harnesses = {}
    for ver in ("vanilla", "tbc", "wrath"):
        src = vlib.read(os.path.join(repo, "wow_world_messages/src/world/%s/opcodes.rs" % ver))
        for which, d in ((0, "c"), (1, "s")):
            ty, arms = cut(src, which)
            table = declared(corpus, ver, d)
            names = sorted(set(n for _, n in arms) | set(table.values()))
            idx = {n: i for i, n in enumerate(names)}
            fn = "%s_%s" % (ver, "client" if d == "c" else "server")
            code.append("// slice of %s::read_opcodes (%s direction): %d arms; wowm declares %d messages" % (ver, fn, len(arms), len(table)))
            code.append("fn slice_%s(opcode: %s) -> Result<u32, u32> {\n    match opcode {" % (fn, ty))
            for lit, n in arms:
                code.append("        %#06x => Ok(%d), // %s" % (lit, idx[n], n))
            code.append("        _ => Err(opcode as u32),\n    }\n}")
            code.append("fn spec_%s(opcode: u32) -> Option<u32> {\n    match opcode {" % fn)
            for op, n in sorted(table.items()):
                code.append("        %#06x => Some(%d), // %s" % (op, idx[n], n))
            code.append("        _ => None,\n    }\n}")
            code.append("#[cfg(kani)]\n#[kani::proof]\n#[kani::unwind(1)]\nfn c04_opcodes_%s() {\n    let op: %s = kani::any();\n    match slice_%s(op) {" % (fn, ty, fn))
            code.append('        Ok(m) => {\n            kani::cover!(true, "C04:cover-known-opcode");\n            assert!(spec_%s(op as u32) == Some(m), "C04:opcode-dispatches-to-the-message-the-wowm-assigns-or-is-rejected");\n        }' % fn)
            code.append('        Err(e) => {\n            assert!(spec_%s(op as u32).is_none(), "C01:every-declared-opcode-is-dispatched");\n            assert!(e == op as u32, "C04:unknown-opcode-error-reports-the-opcode");\n        }\n    }\n}' % fn)
            harnesses["c04_opcodes_%s" % fn] = "wow_world_messages::%s::opcodes::%sOpcodeMessage::read_opcodes (match slice)" % (ver, "Client" if d == "c" else "Server")
    code.append('#[cfg(kani)]\n#[kani::proof]\n#[kani::unwind(1)]\nfn c04_opcodes_canary() {\n    let op: u16 = kani::any();\n    assert!(slice_vanilla_server(op).is_err(), "CANARY:c04op");\n}')
    return "\n".join(code) + "\n", harnesses


def batch(scratch):
    """A tiny standalone crate inside the scratch dir (no dependencies), verified with cargo kani."""
    text, hs = gen(vlib.REPO)
    d = os.path.join(scratch, "repo", "verif_c04_opcodes")
    os.makedirs(os.path.join(d, "src"), exist_ok=True)
    vlib.write(os.path.join(d, "Cargo.toml"), '[package]\nname = "verif_c04_opcodes"\nversion = "0.0.0"\nedition = "2021"\n[workspace]\n')
    vlib.write(os.path.join(d, "src/lib.rs"), text)
    vlib.write(os.path.join(vlib.VERIF, "logs", "c04_opcodes.rs"), text)
    specs = {h: dict(kind="complete", default_prop="C04", functions=[f]) for h, f in hs.items()}
    specs["c04_opcodes_canary"] = dict(canary=True)
    return vlib.Batch("verif_c04_opcodes", None, {}, specs, jobs=6, harness_timeout=600)
