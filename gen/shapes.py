"""Bounded contracts for world messages with strings / variable arrays (the class the bytes-side route cannot carry):
*concrete shapes, symbolic contents*. For a small set of shapes per message (which branch every `if` takes, every array
count and string length in {0, 1, 2}, optional tail present or not) the generator emits Rust that fills a byte buffer
exactly as the wowm definition prescribes for that shape - branch selectors, counts and length prefixes concrete, every
other byte symbolic - and the same contract as for loop-free messages is asserted on it (walker says canonical =>
decoded, fully consumed, re-encoded identically, size equal; undeclared enum values rejected; no panic).
Loops in the decoders then have concrete trip counts, which is what makes CBMC finish."""
import re
from gen import containers as C
from spec import wowm

N_SHAPES = 3


class ShapeGen:
    def __init__(self, res, shape):
        self.res = res
        self.s = shape          # 0, 1, 2
        self.lines = []
        self.size = 0
        self.notes = []
        self.nsel = 0

    def emit(self, s):
        self.lines.append("    " + s)

    def put_any(self, width, comment=""):
        self.emit("n = put_any(&mut b, n, %d);%s" % (width, ("  // " + comment) if comment else ""))
        self.size += width

    def put_const(self, value, width, be=False, comment=""):
        if value < 0:
            value += 1 << (8 * width)
        self.emit("n = put_%s(&mut b, n, %d, %d);%s" % ("be" if be else "le", value, width, ("  // " + comment) if comment else ""))
        self.size += width

    def count_for(self):
        return [0, 2, 1][self.s]

    def members(self, ms, roles, scope):
        for m in ms:
            self.member(m, roles, scope)

    def member(self, m, roles, scope):
        k = m["k"]
        if k == "unimplemented":
            raise C.Unsupported("unimplemented member")
        if k == "optional":
            if self.s != 0:
                self.emit("// optional %s present" % m["name"])
                self.members(m["members"], roles, dict(scope))
            else:
                self.emit("// optional %s absent" % m["name"])
            return
        if k == "if":
            return self.if_stmt(m, roles, scope)
        if any(t == "compressed" for t, _ in m["tags"]):
            raise C.Unsupported("compressed member")
        self.field(m["ty"], m["name"], m["const"], roles, scope)

    def chosen(self, name, o, roles):
        """concrete value for an enum/flag member that later conditions test, for this shape"""
        uses = roles["cond"].get(name)
        if not uses:
            return None
        # uses: list of if-statements (in order) testing this member; satisfy branch (shape mod nbranches) of the first one
        st = uses[0]
        nb = len(st["branches"]) + 1
        want = self.s % nb
        vals = {mm["name"]: mm["value"] for mm in o["members"]}
        if o["kind"] == "flag":
            if want >= len(st["branches"]):
                return 0
            bits = 0
            for var, op, val in st["branches"][want]["conds"]:
                if var == name and op == "&":
                    bits |= vals[val]
                    break
            # shape 2 additionally sets the bits of every other flag-if on this member (independent ifs)
            if self.s == 2:
                for other in uses[1:]:
                    for var, op, val in other["branches"][0]["conds"]:
                        if var == name and op == "&":
                            bits |= vals[val]
            return bits
        # enum
        def sat(conds, v):
            for var, op, val in conds:
                if var != name:
                    continue
                if op == "==" and v == vals[val]:
                    return True
                if op == "!=" and v != vals[val]:
                    return True
            return False
        allv = [mm["value"] for mm in o["members"]]
        if want < len(st["branches"]):
            for v in allv:
                if sat(st["branches"][want]["conds"], v) and not any(sat(st["branches"][j]["conds"], v) for j in range(want)):
                    return v
        for v in allv:   # else branch / fallthrough
            if not any(sat(br["conds"], v) for br in st["branches"]):
                return v
        return allv[0]

    def field(self, ty, name, const, roles, scope):
        if ty["t"] == "array":
            return self.array(ty, name, roles, scope)
        t = ty["name"]
        up = ty.get("upcast")
        prim = C.LE.get(t) or C.BE.get(t)
        if prim and not up:
            be = t in C.BE
            if const is not None:
                if const == "self.size":
                    raise C.Unsupported("self.size member")
                self.put_const(wowm.parse_int(const), prim, be, "%s %s = constant" % (t, name))
            elif name in roles["count"]:
                self.put_const(self.count_for(), prim, be, "%s %s (array count, concrete)" % (t, name))
            else:
                self.put_any(prim, "%s %s" % (t, name))
            return
        if t in C.BOOL:
            self.emit("n = put_bool(&mut b, n, %d);  // %s %s" % (C.BOOL[t], t, name))
            self.size += C.BOOL[t]
            return
        if t == "PackedGuid":
            if self.s == 0:
                self.put_const(0, 1, False, "PackedGuid %s: empty mask" % name)
            else:
                self.put_const(0x81, 1, False, "PackedGuid %s: mask 0x81" % name)
                self.emit("n = put_nonzero(&mut b, n, 2);")
                self.size += 2
            return
        if t == "DateTime":
            raise C.Unsupported("DateTime member in a shaped contract")
        if t == "VariableItemRandomProperty":
            if self.s == 0:
                self.put_const(0, 4, False, "VariableItemRandomProperty %s = 0" % name)
            else:
                self.emit("n = put_nonzero(&mut b, n, 1);")
                self.emit("n = put_any(&mut b, n, 7);")
                self.size += 8
            return
        if t in ("CString", "SizedCString", "String"):
            L = self.count_for()
            if t == "SizedCString":
                self.put_const(L + 1, 4, False, "SizedCString %s length (concrete)" % name)
            if t == "String":
                self.put_const(L, 1, False, "String %s length (concrete)" % name)
            if L:
                # string *content* is concrete (letters): with symbolic content the C-string reader's loop has no concrete trip
                # count and CBMC does not finish (measured: > 600 s); lengths and everything around the string stay as designed
                for i in range(L):
                    self.put_const(0x61 + i, 1, False, "%s content" % name)
            if t != "String":
                self.put_const(0, 1, False, "terminator")
            return
        if t in ("UpdateMask", "MonsterMoveSplines", "AuraMask", "NamedGuid", "AchievementDoneArray", "AchievementInProgressArray",
                 "CacheMask", "AddonArray", "EnchantMask", "InspectTalentGearMask"):
            raise C.Unsupported("member type %s" % t)
        o = self.res.lookup(t)
        if o["obj"] == "definer":
            base = up or o["base"]
            width = C.LE.get(base) or C.BE.get(base)
            if not width:
                raise C.Unsupported("definer base " + base)
            v = self.chosen(name, o, roles)
            if v is not None:
                self.put_const(v, width, base in C.BE, "%s %s (tested by a later if: concrete for this shape)" % (t, name))
            else:
                self.put_any(width, "%s %s" % (t, name))
            return
        if o["kind"] != "struct":
            raise C.Unsupported("member kind " + o["kind"])
        if any(tg == "compressed" for tg, _ in o["tags"]):
            raise C.Unsupported("compressed struct")
        self.emit("// struct %s %s {" % (t, name))
        self.members(o["members"], scan_roles(o["members"]), {})
        self.emit("// }")

    def array(self, ty, name, roles, scope):
        size = ty["size"]
        k = size if isinstance(size, int) else self.count_for()
        if isinstance(size, int) and size > 40:
            raise C.Unsupported("large fixed array")
        inner = ty["inner"]
        prim = (C.LE.get(inner["name"]) or C.BE.get(inner["name"])) if not inner.get("upcast") else None
        if prim:
            if k:
                self.put_any(prim * k, "%s[%s] %s (%d elements)" % (inner["name"], size, name, k))
            return
        for i in range(k):
            self.field(inner, "%s_%d" % (name, i), None, {"count": set(), "cond": {}}, {})

    def if_stmt(self, m, roles, scope):
        # the member tested was emitted concretely by `chosen`; replay the same choice here
        var = m["branches"][0]["conds"][0][0]
        uses = roles["cond"].get(var, [])
        first = uses and uses[0] is m
        nb = len(m["branches"]) + 1
        if first:
            want = self.s % nb
        else:
            # later ifs on the same member: flag -> taken only in shape 2; enum -> evaluate with the chosen value
            want = None
        o = roles["types"].get(var)
        if o is None:
            raise C.Unsupported("condition on unknown member " + var)
        val = self.chosen(var, o, roles)
        vals = {mm["name"]: mm["value"] for mm in o["members"]}

        def holds(conds):
            for cv, op, cval in conds:
                x = vals[cval]
                if op == "==" and val == x:
                    return True
                if op == "!=" and val != x:
                    return True
                if op == "&" and (val & x) != 0:
                    return True
            return False
        taken = None
        for i, br in enumerate(m["branches"]):
            if holds(br["conds"]):
                taken = br["members"]
                break
        if taken is None:
            taken = m["else_"] or []
        self.emit("// if on %s = %d" % (var, val))
        self.members(taken, roles, dict(scope))


def scan_roles(ms):
    """which members are array counts, which are tested by ifs (in order), and their definers are filled in later"""
    roles = {"count": set(), "cond": {}, "types": {}}

    def walk(members):
        for m in members:
            if m["k"] == "field":
                if m["ty"]["t"] == "array" and isinstance(m["ty"]["size"], str) and m["ty"]["size"] != "-":
                    roles["count"].add(m["ty"]["size"])
            elif m["k"] == "if":
                for cv, _, _ in m["branches"][0]["conds"][:1]:
                    roles["cond"].setdefault(cv, []).append(m)
                for br in m["branches"]:
                    walk(br["members"])
                if m["else_"]:
                    walk(m["else_"])
            elif m["k"] == "optional":
                walk(m["members"])
    walk(ms)
    return roles


def fill_types(ms, res, roles):
    def walk(members):
        for m in members:
            if m["k"] == "field" and m["ty"]["t"] != "array" and m["ty"]["t"] == "named":
                try:
                    o = res.lookup(m["ty"]["name"])
                except C.Unsupported:
                    continue
                if o["obj"] == "definer":
                    roles["types"][m["name"]] = o
            elif m["k"] == "if":
                for br in m["branches"]:
                    walk(br["members"])
                if m["else_"]:
                    walk(m["else_"])
            elif m["k"] == "optional":
                walk(m["members"])
    walk(ms)


ORIG_MEMBERS = ShapeGen.members


def _members(self, ms, roles, scope):
    fill_types(ms, self.res, roles)
    for m in ms:
        self.member(m, roles, scope)


ShapeGen.members = _members

RT = r"""
// ---- buffer construction helpers of the shaped contracts ----
pub fn put_any<const N: usize>(b: &mut [u8; N], n: usize, k: usize) -> usize {
    let mut i = 0;
    while i < k {
        b[n + i] = kani::any();
        i += 1;
    }
    n + k
}
pub fn put_nonzero<const N: usize>(b: &mut [u8; N], n: usize, k: usize) -> usize {
    let mut i = 0;
    while i < k {
        let v: u8 = kani::any();
        kani::assume(v != 0);
        b[n + i] = v;
        i += 1;
    }
    n + k
}
pub fn put_ascii<const N: usize>(b: &mut [u8; N], n: usize, k: usize) -> usize {
    let mut i = 0;
    while i < k {
        let v: u8 = kani::any();
        kani::assume(v != 0 && v < 0x80);
        b[n + i] = v;
        i += 1;
    }
    n + k
}
pub fn put_bool<const N: usize>(b: &mut [u8; N], n: usize, k: usize) -> usize {
    let v: bool = kani::any();
    b[n] = v as u8;
    n + k
}
pub fn put_le<const N: usize>(b: &mut [u8; N], n: usize, v: u64, k: usize) -> usize {
    let mut i = 0;
    while i < k {
        b[n + i] = (v >> (8 * i)) as u8;
        i += 1;
    }
    n + k
}
pub fn put_be<const N: usize>(b: &mut [u8; N], n: usize, v: u64, k: usize) -> usize {
    let mut i = 0;
    while i < k {
        b[n + i] = (v >> (8 * (k - 1 - i))) as u8;
        i += 1;
    }
    n + k
}
"""


def harness(item, d, corpus, ver, hname, shape):
    """returns rust text of walker + shaped harness, or raises Unsupported"""
    res = C.Resolver(corpus, ver)
    g = C.Gen(res, allow_loops=True)
    lo, hi = g.members(d["members"], 1, {})
    if not g.loops:
        raise C.Unsupported("loop-free (covered by the complete contract)")
    sg = ShapeGen(res, shape)
    sg.members(d["members"], scan_roles(d["members"]), {})
    N = sg.size
    if N > 160:
        raise C.Unsupported("shape larger than 160 bytes")
    T = "%s::%s" % (item["modpath"], item["rust_name"])
    unwind = max(12, g.max_array + 2, 44)
    L = []
    L.append("// %s  <-  %s:%d  shape %d (%d bytes)" % (T, d["file"], d["line"], shape, N))
    L.append("fn walk_%s(b: &[u8], n: usize) -> W {" % hname)
    L.append("    let mut w = W::new(b, n);")
    L += g.lines
    L.append("    w\n}")
    L.append("#[kani::proof]\n#[kani::unwind(%d)]\nfn %s() {" % (unwind, hname))
    L.append("    const N: usize = %d;" % max(N, 1))
    L.append("    let mut b = [0_u8; N];")
    L.append("    let mut n: usize = 0;")
    L += sg.lines
    L.append("    let w = walk_%s(&b, n);" % hname)
    L.append("    let canonical = w.canonical_whole();")
    L.append("    let mut r: &[u8] = &b[..n];")
    L.append("    let res = <%s as crate::Message>::read_body::<crate::traits::private::Internal>(&mut r, n as u32);" % T)
    L.append("    match &res {")
    L.append("        Ok(m) => {")
    L.append('            kani::cover!(canonical, "C01:cover-canonical-encoding-decoded");')
    L.append('            assert!(!w.bad_enum, "C04:undeclared-enum-value-is-rejected");')
    L.append("            if canonical && !w.wide_level {")
    L.append('                assert!(r.is_empty(), "C01:decoder-consumes-the-whole-body");')
    L.append("                let mut out: Out<{ N + 16 }> = Out::new();")
    L.append('                assert!(crate::Message::write_into_vec(m, &mut out).is_ok(), "C01:re-encoding-succeeds");')
    L.append('                assert!(out.len == n, "C01:re-encoded-length-equals-original");')
    L.append('                assert!(crate::Message::size_without_header(m) as usize == out.len, "C02:size-equals-bytes-written");')
    L.append("                let k: usize = kani::any();")
    L.append("                kani::assume(k < n);")
    L.append('                assert!(out.buf[k] == b[k], "C01:re-encoded-bytes-identical");')
    L.append("            }")
    L.append("        }")
    L.append("        Err(e) => {")
    L.append("            match e.verif_kind() {")
    L.append("                crate::errors::ParseErrorKind::InvalidSize => {")
    L.append('                    assert!(!canonical, "C09:canonical-encoding-rejected-by-size-guard");')
    L.append("                }")
    L.append("                crate::errors::ParseErrorKind::Enum(ee) => {")
    L.append('                    assert!(!canonical, "C01:canonical-encoding-accepted");')
    L.append("                    if w.bad_enum {")
    L.append('                        assert!(ee.value == w.bad_value as i128, "C04:enum-error-reports-the-offending-value");')
    L.append("                    }")
    L.append("                }")
    L.append("                _ => {")
    L.append('                    assert!(!w.bad_enum, "C04:undeclared-enum-value-is-reported-as-enum-error");')
    L.append('                    assert!(!canonical, "C01:canonical-encoding-accepted");')
    L.append("                }")
    L.append("            }")
    L.append("        }")
    L.append("    }")
    L.append("    std::mem::forget(res);")
    L.append("}")
    return "\n".join(L) + "\n", N
