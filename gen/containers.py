"""Generates, from the independent wowm reading, the specification walker and the Kani contract harness of every
generated world message whose definition is loop-free (C01 / C02a / C03 / C04 / C09c).

A container is *loop-free* when all its members (after inlining nested structs and unrolling small fixed arrays) are
fixed-width scalars, enums/flags, Bool, Guid, PackedGuid, DateTime or small built-ins, under if / else-if / else /
optional. Everything else (strings, variable/endless arrays, masks, splines, compressed members) is classified with
the reason and left to the bounded class / listed as not covered."""
import glob
import os
import re
from lib import vlib
from spec import wowm

HEADER = re.compile(r"/// Auto generated from the original `wowm` in file \[`(wow_message_parser/wowm/[^`:]+):(\d+)`\]")

LE = {"u8": 1, "u16": 2, "u32": 4, "u64": 8, "i8": 1, "i16": 2, "i32": 4, "i64": 8, "u48": 6, "f32": 4,
      "Gold": 4, "Level": 1, "Level16": 2, "Level32": 4, "Seconds": 4, "Milliseconds": 4, "Spell": 4, "Spell16": 2,
      "Item": 4, "Guid": 8, "Population": 4}
BE = {"u16_be": 2, "u32_be": 4, "u64_be": 8, "IpAddress": 4, "i32_be": 4, "f32_be": 4}
BOOL = {"Bool": 1, "Bool16": 2, "Bool32": 4}
MAX_UNROLL = 32          # total scalar reads allowed for one fixed array
BOUNDED_N = 16           # frame bound of the bounded contracts of messages with strings / variable arrays
MAX_BODY = 160           # symbolic buffer bound for a loop-free contract (larger ones are left to the thorough tier / skipped)


class Unsupported(Exception):
    pass


def scan_messages(repo):
    out = []
    root = os.path.join(repo, "wow_world_messages", "src")
    for f in sorted(glob.glob(os.path.join(root, "world", "*", "*.rs"))):
        base = os.path.basename(f)
        if base in ("mod.rs", "opcodes.rs"):
            continue
        src = vlib.read(f)
        m = HEADER.search(src)
        if not m:
            continue
        im = re.search(r"^pub struct (\w+) \{", src[m.end():], re.M)
        if not im:
            continue
        # only the first item of the file is the container the file is named after
        name = im.group(1)
        if "impl crate::Message for %s " % name not in src:
            continue
        rel = os.path.relpath(f, root)
        parts = rel.split("/")
        vdir = parts[1]
        if vdir == "shared":
            stem = base[:-3]
            vers = [v for v in ("vanilla", "tbc", "wrath") if re.search(r"_%s(_|$)" % v, stem[len(name.lower()):] if stem.startswith(name.lower()) else stem)]
            if not vers:
                vers = [v for v in ("vanilla", "tbc", "wrath") if ("_" + v) in stem]
        else:
            vers = [vdir]
        out.append(dict(path=f, rel=os.path.join("wow_world_messages/src", rel), modpath="crate::" + rel[:-3].replace("/", "::"),
                        rust_name=name, wowm_file=m.group(1), wowm_line=int(m.group(2)), versions=vers, src=src))
    return out


class Resolver:
    def __init__(self, corpus, ver):
        self.c = corpus
        self.ver = ("world", wowm.MAIN_WORLD[ver] + ((0,) * 0))
        self.vname = ver
        self.by_name = {}
        for o in corpus.objs:
            if o["obj"] in ("definer", "container"):
                self.by_name.setdefault(o["name"], []).append(o)

    def covers(self, o):
        exact = {"vanilla": (1, 12, 1, 5875), "tbc": (2, 4, 3, 8606), "wrath": (3, 3, 5, 12340)}[self.vname]
        return any(wowm.covers_world(p, exact) for p in wowm.world_versions(o))

    def lookup(self, name):
        c = [o for o in self.by_name.get(name, []) if self.covers(o)]
        if len(c) != 1:
            raise Unsupported("type %s resolves to %d definitions for %s" % (name, len(c), self.vname))
        return c[0]


class Gen:
    """Emits the walker for one container in one version."""

    def __init__(self, res, allow_loops=False):
        self.res = res
        self.allow_loops = allow_loops
        self.loops = False
        self.lines = []
        self.decls = []
        self.nvar = 0
        self.reads = 0
        self.max_array = 0
        self.has_enum = False
        self.notes = []

    def var(self, hint):
        self.nvar += 1
        return "v%d_%s" % (self.nvar, re.sub(r"\W", "_", hint))

    def emit(self, ind, s):
        self.lines.append("    " * ind + s)

    def rd(self, width, be=False):
        self.reads += 1
        if be:
            return {2: "w.be2()", 4: "w.be4()", 8: "w.be8()"}[width]
        return {1: "w.le1()", 2: "w.le2()", 4: "w.le4()", 6: "w.le6()", 8: "w.le8()"}[width]

    def size_of_prim(self, name):
        if name in LE:
            return LE[name], False
        if name in BE:
            return BE[name], True
        return None

    # returns (min_size, max_size)
    def members(self, ms, ind, scope):
        lo = hi = 0
        for m in ms:
            a, b = self.member(m, ind, scope)
            lo += a
            hi += b
        return lo, hi

    def member(self, m, ind, scope):
        k = m["k"]
        if k == "unimplemented":
            raise Unsupported("unimplemented member")
        if k == "optional":
            self.emit(ind, "if w.ok && w.p < w.n {")
            a, b = self.members(m["members"], ind + 1, dict(scope))
            self.emit(ind, "}")
            return 0, b
        if k == "if":
            return self.if_stmt(m, ind, scope)
        if any(t == "compressed" for t, _ in m["tags"]):
            raise Unsupported("compressed member")
        return self.field(m["ty"], m["name"], m["const"], ind, scope)

    def field(self, ty, name, const, ind, scope):
        if ty["t"] == "array":
            return self.array(ty, name, ind, scope)
        tname = ty["name"]
        up = ty.get("upcast")
        prim = self.size_of_prim(tname)
        if prim and not up:
            width, be = prim
            v = self.var(name)
            self.emit(ind, "let %s = %s;  // %s %s" % (v, self.rd(width, be), tname, name))
            if const is not None:
                if const == "self.size":
                    raise Unsupported("self.size member")
                c = wowm.parse_int(const)
                if c is None:
                    raise Unsupported("non-integer constant %r" % const)
                if c < 0:
                    c += 1 << (8 * width)
                self.emit(ind, "w.constant(%s, %d);" % (v, c))
            if tname in ("Level16", "Level32"):
                self.emit(ind, "w.level(%s);" % v)
            scope[name] = (v, None)
            return width, width
        if tname in BOOL:
            width = BOOL[tname]
            v = self.var(name)
            self.emit(ind, "let %s = %s;  // %s %s" % (v, self.rd(width), tname, name))
            self.emit(ind, "w.boolean(%s);" % v)
            return width, width
        if tname == "PackedGuid":
            self.reads += 9
            self.emit(ind, "let _ = w.packed_guid();  // PackedGuid %s" % name)
            self.max_array = max(self.max_array, 8)
            return 1, 9
        if tname == "DateTime":
            self.emit(ind, "let _ = w.datetime();  // DateTime %s" % name)
            self.reads += 1
            return 4, 4
        if tname == "VariableItemRandomProperty":
            v = self.var(name)
            self.emit(ind, "let %s = %s;  // VariableItemRandomProperty %s: second u32 iff first != 0" % (v, self.rd(4), name))
            self.emit(ind, "if w.ok && %s != 0 { let _ = %s; }" % (v, self.rd(4)))
            return 4, 8
        if tname in ("CString", "SizedCString", "String") and self.allow_loops:
            self.loops = True
            fn = {"CString": "cstring", "SizedCString": "sized_cstring", "String": "string"}[tname]
            self.emit(ind, "w.%s();  // %s %s" % (fn, tname, name))
            return {"CString": (1, 256), "SizedCString": (5, 8004), "String": (1, 256)}[tname]
        if tname in ("CString", "SizedCString", "String", "UpdateMask", "MonsterMoveSplines", "AuraMask", "NamedGuid",
                     "AchievementDoneArray", "AchievementInProgressArray", "CacheMask", "AddonArray", "EnchantMask",
                     "InspectTalentGearMask"):
            raise Unsupported("member type %s (variable length, loop)" % tname)
        # named: definer or struct
        o = self.res.lookup(tname)
        if o["obj"] == "definer":
            base = up or o["base"]
            prim = self.size_of_prim(base)
            if not prim:
                raise Unsupported("definer base %s" % base)
            width, be = prim
            v = self.var(name)
            self.emit(ind, "let %s = %s;  // %s%s %s" % (v, self.rd(width, be), ("(%s)" % up) if up else "", tname, name))
            if o["kind"] == "enum":
                self.has_enum = True
                vals = []
                for mm in o["members"]:
                    x = mm["value"]
                    if x is None:
                        raise Unsupported("enumerator without value")
                    if x < 0:
                        x += 1 << (8 * width)   # signed base: value as the unsigned bit pattern of the wire width
                    vals.append(x)
                pat = " | ".join(str(x) for x in sorted(set(vals)))
                self.emit(ind, "w.enum_member(%s, matches!(%s, %s));" % (v, v, pat))
            scope[name] = (v, o)
            return width, width
        if o["kind"] != "struct":
            raise Unsupported("member of container kind %s" % o["kind"])
        if any(t == "compressed" for t, _ in o["tags"]):
            raise Unsupported("compressed struct")
        self.emit(ind, "// struct %s %s {" % (tname, name))
        a, b = self.members(o["members"], ind, {})
        self.emit(ind, "// }")
        return a, b

    def array(self, ty, name, ind, scope):
        size = ty["size"]
        inner = ty["inner"]
        if not isinstance(size, int):
            if not self.allow_loops:
                raise Unsupported("variable or endless array")
            self.loops = True
            if size == "-":
                self.emit(ind, "while w.ok && w.p < w.n {  // %s[-] %s" % (inner["name"], name))
                a, b = self.field(inner, name + "_elem", None, ind + 1, {})
                if a == 0:
                    raise Unsupported("endless array of possibly empty elements")
                self.emit(ind, "}")
                return 0, 1 << 24
            if size not in scope or scope[size][1] is not None and False:
                raise Unsupported("array count member %s not in scope" % size)
            cnt = scope[size][0]
            i = self.var("i")
            self.emit(ind, "let mut %s: u64 = 0;" % i)
            self.emit(ind, "while w.ok && %s < %s {  // %s[%s] %s" % (i, cnt, inner["name"], size, name))
            a, b = self.field(inner, name + "_elem", None, ind + 1, {})
            if a == 0:
                raise Unsupported("variable array of possibly empty elements")
            self.emit(ind + 1, "%s += 1;" % i)
            self.emit(ind, "}")
            return 0, 1 << 24
        prim = self.size_of_prim(inner["name"]) if not inner.get("upcast") else None
        before = self.reads
        lo = hi = 0
        if prim and size * 1 <= MAX_UNROLL * 4 and prim[0] == 1:
            # byte arrays: contents are unconstrained
            self.emit(ind, "if w.ok { if w.p + %d > w.n { w.ok = false; } else { w.p += %d; } }  // %s[%d] %s" % (size, size, inner["name"], size, name))
            self.max_array = max(self.max_array, size)   # the decoder may fill the array element by element
            return size, size
        for i in range(size):
            a, b = self.field(inner, "%s_%d" % (name, i), None, ind, {})
            lo += a
            hi += b
            if self.reads - before > MAX_UNROLL:
                raise Unsupported("fixed array too large to unroll (%d elements)" % size)
        self.max_array = max(self.max_array, size)
        return lo, hi

    def cond(self, c, scope):
        var, op, val = c
        if var not in scope or scope[var][1] is None:
            raise Unsupported("condition on %s which is not an enum/flag member in scope" % var)
        v, o = scope[var]
        mm = [x for x in o["members"] if x["name"] == val]
        if len(mm) != 1:
            raise Unsupported("enumerator %s of %s not found" % (val, o["name"]))
        x = mm[0]["value"]
        if op == "==":
            return "%s == %d" % (v, x)
        if op == "!=":
            return "%s != %d" % (v, x)
        return "(%s & %d) != 0" % (v, x)

    def if_stmt(self, m, ind, scope):
        los, his = [], []
        first = True
        for br in m["branches"]:
            cs = " || ".join(self.cond(c, scope) for c in br["conds"])
            self.emit(ind, "%sif w.ok && (%s) {" % ("" if first else "} else ", cs))
            a, b = self.members(br["members"], ind + 1, dict(scope))
            los.append(a)
            his.append(b)
            first = False
        if m["else_"] is not None:
            self.emit(ind, "} else if w.ok {")
            a, b = self.members(m["else_"], ind + 1, dict(scope))
            los.append(a)
            his.append(b)
        else:
            los.append(0)
            his.append(0)
        self.emit(ind, "}")
        return min(los), max(his)


def plan(corpus, item, ver):
    d = corpus.by_loc.get((item["wowm_file"], item["wowm_line"]))
    if d is None or d["obj"] != "container":
        raise Unsupported("no wowm container at %s:%d" % (item["wowm_file"], item["wowm_line"]))
    if any(t == "compressed" for t, _ in d["tags"]):
        raise Unsupported("compressed message")
    try:
        g = Gen(Resolver(corpus, ver))
        lo, hi = g.members(d["members"], 1, {})
    except Unsupported:
        # The bytes-side bounded class (strings / variable arrays, frames <= BOUNDED_N bytes) is implemented but OFF by
        # default: measured on this machine, every one of 225 such harnesses exceeded 120 s (N = 16) and a single
        # CString message did not finish in 600 s at N = 12 (Vec growth + UTF-8 validation over symbolic bytes).
        if os.environ.get("VERIF_BOUNDED_CONTAINERS") != "1":
            raise
        g = Gen(Resolver(corpus, ver), allow_loops=True)
        lo, hi = g.members(d["members"], 1, {})
    if not g.loops and hi > MAX_BODY:
        raise Unsupported("loop-free but larger than %d bytes (%d)" % (MAX_BODY, hi))
    return d, g, lo, hi


def harness(item, d, g, lo, hi, hname):
    T = "%s::%s" % (item["modpath"], item["rust_name"])
    if g.loops:
        N = min(hi + 2, max(lo + 6, BOUNDED_N))
        unwind = max(10, g.max_array + 2, N + 3)
    else:
        N = hi + 2
        unwind = max(10, g.max_array + 2)
    L = []
    L.append("// %s  <-  %s:%d  (%s %s, body %d..=%d bytes)" % (T, d["file"], d["line"], d["kind"], d["name"], lo, hi))
    L.append("fn walk_%s(b: &[u8], n: usize) -> W {" % hname)
    L.append("    let mut w = W::new(b, n);")
    L += g.lines
    L.append("    w\n}")
    L.append("#[kani::proof]\n#[kani::unwind(%d)]\nfn %s() {" % (unwind, hname))
    L.append("    const N: usize = %d;" % N)
    L.append("    let b: [u8; N] = kani::any();")
    L.append("    let n: usize = kani::any();")
    L.append("    kani::assume(n <= N);")
    L.append("    let w = walk_%s(&b, n);" % hname)
    L.append("    let canonical = w.canonical_whole();")
    L.append("    let mut r: &[u8] = &b[..n];")
    L.append("    // C03: the call returns for every byte string (no panic / overflow / out-of-bounds: Kani's built-in checks)")
    L.append("    let res = <%s as crate::Message>::read_body::<crate::traits::private::Internal>(&mut r, n as u32);" % T)
    L.append("    match &res {")
    L.append("        Ok(m) => {")
    L.append('            kani::cover!(canonical, "C01:cover-canonical-encoding-decoded");')
    L.append('            assert!(!w.bad_enum, "C04:undeclared-enum-value-is-rejected");')
    if lo == hi:
        L.append('            assert!(n == %d, "C04:fixed-size-message-rejects-other-body-lengths");' % lo)
    L.append("            if canonical && !w.wide_level {")
    L.append('                assert!(r.is_empty(), "C01:decoder-consumes-the-whole-body");')
    L.append("                let mut out: Out<{ N + 16 }> = Out::new();")
    L.append('                assert!(crate::Message::write_into_vec(m, &mut out).is_ok(), "C01:re-encoding-succeeds");')
    L.append('                assert!(out.len == n, "C01:re-encoded-length-equals-original");')
    L.append('                assert!(crate::Message::size_without_header(m) as usize == out.len, "C02:size-equals-bytes-written");')
    L.append("                let k: usize = kani::any();")
    L.append("                kani::assume(k < n);")
    L.append('                assert!(out.buf[k] == b[k], "C01:re-encoded-bytes-identical");')
    L.append("            }")
    L.append("        }")
    L.append("        Err(e) => {")
    L.append("            match e.verif_kind() {")
    L.append("                crate::errors::ParseErrorKind::InvalidSize => {")
    L.append('                    assert!(!canonical, "C09:canonical-encoding-rejected-by-size-guard");')
    L.append("                }")
    L.append("                crate::errors::ParseErrorKind::Enum(ee) => {")
    L.append('                    assert!(!canonical, "C01:canonical-encoding-accepted");')
    L.append("                    if w.bad_enum {")
    if g.has_enum:
        L.append('                        kani::cover!(true, "C04:cover-enum-rejection");')
    L.append('                        assert!(ee.value == w.bad_value as i128, "C04:enum-error-reports-the-offending-value");')
    L.append("                    }")
    L.append("                }")
    L.append("                _ => {")
    L.append('                    assert!(!w.bad_enum, "C04:undeclared-enum-value-is-reported-as-enum-error");')
    L.append('                    assert!(!canonical, "C01:canonical-encoding-accepted");')
    L.append("                }")
    L.append("            }")
    L.append("        }")
    L.append("    }")
    if "w.level(" in "\n".join(g.lines):
        L.append("    // last (recorded finding): Level16/Level32 are aliases of u16/u32 in the language but decode into a u8 Level")
        L.append("    if let Ok(m) = &res {")
        L.append("        if canonical && w.wide_level {")
        L.append("            let mut out: Out<{ N + 16 }> = Out::new();")
        L.append("            let _ = crate::Message::write_into_vec(m, &mut out);")
        L.append("            let k: usize = kani::any();")
        L.append("            kani::assume(k < n);")
        L.append('            assert!(out.len == n && out.buf[k] == b[k], "C01:level16/32-value-above-255-survives-decode-then-encode");')
        L.append("        }")
        L.append("    }")
    L.append("    std::mem::forget(res);")
    L.append("}")
    return "\n".join(L) + "\n"
