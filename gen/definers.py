"""Generates the C11 (enum) and C12 (flag) contract harnesses.

Specification side: the (name, value) tables, base types and tags come from the independent wowm reader
(spec/wowm.py). Link to the code: every generated Rust item carries a doc header naming the wowm file and
line it was generated from; Rust identifiers of variants / methods are found by normalised name and an
anchor that cannot be found makes the run undecided (exit 2), never a violation."""
import glob
import os
import re
from lib import vlib
from spec import wowm

HEADER = re.compile(r"/// Auto generated from the original `wowm` in file \[`(wow_message_parser/wowm/[^`:]+):(\d+)`\]")
INT_RANGE = {"u8": (0, 2**8 - 1), "u16": (0, 2**16 - 1), "u32": (0, 2**32 - 1), "u64": (0, 2**64 - 1),
             "i8": (-2**7, 2**7 - 1), "i16": (-2**15, 2**15 - 1), "i32": (-2**31, 2**31 - 1), "i64": (-2**63, 2**63 - 1),
             "usize": (0, 2**64 - 1)}
WIDTH = {"u8": 8, "u16": 16, "u32": 32, "u64": 64, "i8": 8, "i16": 16, "i32": 32, "i64": 64, "usize": 64}
SOURCES = ["u8", "u16", "u32", "u64", "i8", "i16", "i32", "i64", "usize"]


RUST_KEYWORDS = {"self", "type", "move", "loop", "match", "ref", "in", "as", "box", "dyn", "enum", "fn", "for", "if", "impl", "let", "mod",
                 "mut", "pub", "static", "struct", "super", "trait", "true", "false", "use", "where", "while", "break", "const", "continue",
                 "crate", "else", "extern", "return", "unsafe", "async", "await", "abstract", "final", "override", "macro", "try", "yield"}


def norm(s):
    return s.replace("_", "").lower()


def scan_items(repo, crate, subdir):
    """All generated definer items (enum / flag struct) of a crate: [(relpath, modpath, rust_name, wowm_file, wowm_line, text)]"""
    out = []
    root = os.path.join(repo, crate, "src")
    for f in sorted(glob.glob(os.path.join(root, subdir, "**", "*.rs"), recursive=True)):
        if os.path.basename(f) in ("mod.rs", "opcodes.rs"):
            continue
        src = vlib.read(f)
        for m in HEADER.finditer(src):
            # the item that follows the doc block + attributes
            rest = src[m.end():]
            im = re.search(r"^pub (enum|struct) (\w+) \{", rest, re.M)
            if not im:
                continue
            # make sure no other header lies between
            if HEADER.search(rest[:im.start()]):
                continue
            rel = os.path.relpath(f, root)
            modpath = "crate::" + rel[:-3].replace("/", "::")
            out.append(dict(path=f, rel=os.path.join(crate, "src", rel), modpath=modpath, rust_kind=im.group(1),
                            rust_name=im.group(2), wowm_file=m.group(1), wowm_line=int(m.group(2)), src=src,
                            item_pos=m.end() + im.start()))
    return out


def enum_variants(item):
    """Rust variant identifiers of `pub enum X { .. }` in declaration order."""
    src = item["src"]
    ob = src.index("{", item["item_pos"])
    body = src[ob + 1:vlib.match_brace(src, ob) - 1]
    vs = []
    for line in body.splitlines():
        line = line.strip()
        if not line or line.startswith("///") or line.startswith("#["):
            continue
        m = re.match(r"^(\w+)\s*(\(.*\))?,?$", line)
        if not m:
            raise vlib.AnchorLost("cannot read variant line %r of %s" % (line, item["rust_name"]))
        vs.append((m.group(1), m.group(2)))
    return vs


def tryfrom_sources(item, name):
    return re.findall(r"^impl TryFrom<(\w+)> for %s \{" % re.escape(name), item["src"], re.M)


def from_sources(item, name):
    return re.findall(r"^impl From<(\w+)> for %s \{" % re.escape(name), item["src"], re.M)


def lit(v, ty):
    """Rust literal of integer v in type ty (via i128 to stay readable)."""
    return "(%d_i128 as %s)" % (v, ty) if v < 0 else "%d_%s" % (v, ty)


def reinterpret(v, frm, to):
    """bit reinterpretation of value v of type frm as type `to` of the same width"""
    w = WIDTH[frm]
    u = v & (2**w - 1)
    if to.startswith("i") and u >= 2**(w - 1):
        return u - 2**w
    return u


# ------------------------------------------------------------------------------------------------
# C11
# ------------------------------------------------------------------------------------------------

def gen_enum_harness(item, d, hname, arm_budget=200):
    """Returns ([(harness_name, code)], functions, missing_impls). The contract is split into parts
    (from_int/as_int/variants over the base type, then one part per TryFrom source type) that are grouped into
    harnesses so that (#parts x #enumerators) stays within `arm_budget` per harness: CBMC's symbolic execution of
    the generated N-arm matches costs ~0.07 s per arm and call."""
    E = "%s::%s" % (item["modpath"], item["rust_name"])
    base = d["base"]
    if base not in INT_RANGE:
        raise vlib.AnchorLost("enum %s has unsupported base type %s" % (d["name"], base))
    variants = enum_variants(item)
    if any(p for _, p in variants):
        raise vlib.AnchorLost("enum %s has non-unit variants" % d["name"])
    by_norm = {}
    for ident, _ in variants:
        by_norm.setdefault(norm(ident), []).append(ident)
    idents = []
    exact = set(ident for ident, _ in variants)
    for m in d["members"]:
        camel = "".join(seg[:1].upper() + seg[1:].lower() for seg in m["name"].split("_"))
        if camel in exact:
            idents.append(camel)
            continue
        if camel + "X" in exact:
            idents.append(camel + "X")
            continue
        c = by_norm.get(norm(m["name"]))
        if not c:
            # identifiers that would clash in Rust (keywords, `Error` vs Self::Error) carry an `X` suffix: SELF -> SelfX
            c = by_norm.get(norm(m["name"]) + "x")
        if not c or len(c) != 1:
            raise vlib.AnchorLost("enumerator %s::%s has no unique Rust variant" % (d["name"], m["name"]))
        idents.append(c[0])
    n = len(d["members"])
    vals = [m["value"] for m in d["members"]]
    if any(v is None for v in vals):
        raise vlib.AnchorLost("enumerator of %s without integer value" % d["name"])
    pre = []
    pre.append("    type E = %s;" % E)
    pre.append("    // spec: index of the enumerator declared with numeric value v (wowm order)")
    pre.append("    fn declared(v: i128) -> Option<usize> {\n        match v {")
    for k, v in enumerate(vals):
        pre.append("            %d => Some(%d)," % (v, k))
    pre.append("            _ => None,\n        }\n    }")
    pre.append("    fn index_of(e: E) -> usize {\n        match e {")
    for k, idn in enumerate(idents):
        pre.append("            E::%s => %d," % (idn, k))
    pre.append("        }\n    }")
    parts = []
    L = []
    L.append("    let vs = E::variants();")
    L.append('    assert!(vs.len() == %d, "C11:variants-lists-each-enumerator-once");' % n)
    L.append("    let k: usize = kani::any();\n    kani::assume(k < %d);" % n)
    L.append('    assert!(index_of(vs[k]) == k, "C11:variants-in-declaration-order");')
    L.append('    assert!(declared(vs[k].as_int() as i128) == Some(k), "C11:as_int-is-declared-value");')
    parts.append(("variants", L, 2))
    L = []
    L.append("    let x: %s = kani::any();" % base)
    L.append("    match E::from_int(x) {")
    L.append("        Ok(e) => {")
    L.append('            kani::cover!(true, "C11:cover-from_int-ok");')
    L.append('            assert!(declared(x as i128) == Some(index_of(e)), "C11:from_int-succeeds-only-for-declared-values-and-names-that-enumerator");')
    L.append('            assert!(e.as_int() == x, "C11:as_int-inverts-from_int");')
    L.append("        }")
    L.append("        Err(er) => {")
    L.append('            assert!(declared(x as i128).is_none(), "C11:from_int-accepts-every-declared-value");')
    L.append('            assert!(er.value == x as i128, "C11:error-reports-offending-value");')
    L.append("        }\n    }")
    parts.append(("from_int", L, 4))
    srcs = tryfrom_sources(item, item["rust_name"])
    for S in SOURCES:
        if S not in srcs:
            continue
        same_width_other_sign = (S != "usize" and WIDTH[S] == WIDTH[base] and S[0] != base[0])
        L = []
        L.append("    {")
        L.append("        let y: %s = kani::any();" % S)
        if same_width_other_sign:
            L.append("        // same width, other signedness: reinterpreted bit for bit")
            L.append("        let v: i128 = %s::from_le_bytes(y.to_le_bytes()) as i128;" % base)
        else:
            L.append("        let v: i128 = y as i128;")
        L.append("        match <E as TryFrom<%s>>::try_from(y) {" % S)
        L.append("            Ok(e) => {")
        L.append('                assert!(declared(v) == Some(index_of(e)), "C11:try_from-%s-succeeds-only-for-declared-values-and-names-that-enumerator");' % S)
        L.append('                assert!(e.as_int() as i128 == v, "C11:try_from-%s-round-trips");' % S)
        L.append("            }")
        L.append("            Err(er) => {")
        L.append('                assert!(declared(v).is_none(), "C11:try_from-%s-accepts-every-declared-value");' % S)
        L.append('                assert!(er.value == v, "C11:try_from-%s-error-reports-offending-value");' % S)
        L.append("            }\n        }\n    }")
        parts.append((S, L, 4))
    per = max(1, arm_budget // max(1, 4 * n))
    groups = [parts[i:i + per] for i in range(0, len(parts), per)]
    out = []
    for gi, g in enumerate(groups):
        name = hname if len(groups) == 1 else "%s__%s" % (hname, "_".join(p[0] for p in g))
        code = ["// %s  <-  %s:%d   parts: %s" % (E, d["file"], d["line"], ", ".join(p[0] for p in g))]
        code.append("#[kani::proof]\n#[kani::unwind(1)]\nfn %s() {" % name)
        code += pre
        for p in g:
            code += p[1]
        code.append('    kani::cover!(true, "C11:cover-end");')
        code.append("}")
        out.append((name, "\n".join(code) + "\n"))
    fns = ["%s::%s" % (E, f) for f in ("from_int", "as_int", "variants")] + ["<%s as TryFrom<%s>>::try_from" % (E, S) for S in srcs]
    missing = [S for S in SOURCES if S not in srcs and not (S == "i64" and wowm.tag(d, "login_versions") is not None)]
    return out, fns, missing


# ------------------------------------------------------------------------------------------------
# C12
# ------------------------------------------------------------------------------------------------

def flag_inner_type(item):
    m = re.search(r"pub struct %s \{\s*inner: (\w+)," % re.escape(item["rust_name"]), item["src"])
    if not m:
        raise vlib.AnchorLost("flag %s: inner type not found" % item["rust_name"])
    return m.group(1)


def gen_flag_harness(item, d, hname):
    F = "%s::%s" % (item["modpath"], item["rust_name"])
    B = flag_inner_type(item)
    src = item["src"]
    zero_valid = (wowm.tag(d, "zero_is_always_valid") == "true")
    width_bits = {"u8": 8, "u16": 16, "u32": 32, "u48": 48, "u64": 64}.get(d["base"])
    if width_bits is None or B not in INT_RANGE:
        raise vlib.AnchorLost("flag %s has unsupported base %s/%s" % (d["name"], d["base"], B))
    L = []
    fns = []
    L.append("// %s  <-  %s:%d" % (F, d["file"], d["line"]))
    L.append("#[kani::proof]\n#[kani::unwind(1)]\nfn %s() {" % hname)
    L.append("    type F = %s;" % F)
    L.append("    let x: %s = kani::any();" % B)
    L.append("    let y: %s = kani::any();" % B)
    allv = 0
    CL = []   # clear_* clauses, emitted last
    for m in d["members"]:
        c = m["value"]
        if c is None:
            raise vlib.AnchorLost("flag enumerator %s::%s has no integer value" % (d["name"], m["name"]))
        allv |= c
        if not re.search(r"pub const %s: %s = " % (re.escape(m["name"]), B), src):
            raise vlib.AnchorLost("constant %s::%s not found" % (d["name"], m["name"]))
        L.append('    assert!(F::%s == %s, "C12:constant-equals-wowm-value");' % (m["name"], lit(c, B)))
    L.append('    assert!(F::new(x).as_int() == x, "C12:new-as_int-raw-value");')
    L.append('    assert!(F::empty().as_int() == 0, "C12:empty-is-zero");')
    L.append('    assert!(F::new(x).is_empty() == (x == 0), "C12:is_empty-iff-zero");')
    L.append('    assert!(F::all().as_int() == %s, "C12:all-is-or-of-declared-bits");' % lit(allv, B))
    fns += [F + "::" + f for f in ("new", "as_int", "empty", "is_empty", "all")]
    for m in d["members"]:
        c = m["value"]
        low = m["name"].lower()
        has = {k: bool(re.search(r"pub (?:const )?fn %s_%s\(" % (k, re.escape(low)), src)) for k in ("is", "new", "set", "clear")}
        if c == 0:
            if has["new"] or has["set"] or has["clear"]:
                # zero enumerator with accessors: is_ must be (x == 0)-based; the generator emits none today
                raise vlib.AnchorLost("zero-valued enumerator %s::%s has accessors; contract not defined" % (d["name"], m["name"]))
            continue
        if not all(has.values()):
            raise vlib.AnchorLost("accessors of %s::%s not found (%r)" % (d["name"], m["name"], has))
        C = lit(c, B)
        if zero_valid:
            L.append('    assert!(F::new(x).is_%s() == (((x & %s) != 0) || x == 0), "C12:is-query-iff-bits-intersect-or-zero");' % (low, C))
        else:
            L.append('    assert!(F::new(x).is_%s() == ((x & %s) != 0), "C12:is-query-iff-bits-intersect");' % (low, C))
        L.append('    assert!(F::new_%s().as_int() == %s, "C12:single-enumerator-constructor");' % (low, C))
        L.append("    {\n        let mut f = F::new(x);\n        let r = f.set_%s();" % low)
        L.append('        assert!(f.as_int() == (x | %s) && r.as_int() == (x | %s), "C12:set-adds-exactly-its-bits");\n    }' % (C, C))
        CL.append("    {\n        let x: %s = kani::any();  // fresh value: a refuted clear_* clause must not restrict the inputs of later clauses\n        let mut f = F::new(x);\n        let r = f.clear_%s();" % (B, low))
        CL.append("        let ok = f.as_int() == (x & !%s) && r.as_int() == (x & !%s);" % (C, C))
        CL.append("        // diagnostic, evaluated only where the obligation is violated: what the recorded finding (reverse_bits) computes")
        CL.append('        if !ok {\n            assert!(f.as_int() == (x & %s.reverse_bits()) && r.as_int() == f.as_int(), "KNOWNSIG[C12:clear-removes-exactly-its-bits]:not-the-recorded-reverse_bits-behaviour");\n        }' % C)
        CL.append('        assert!(ok, "C12:clear-removes-exactly-its-bits");\n    }')
        fns += ["%s::%s_%s" % (F, k, low) for k in ("is", "new", "set", "clear")]
    # operators
    for op, tr, sym in (("bitand", "BitAnd", "&"), ("bitor", "BitOr", "|"), ("bitxor", "BitXor", "^")):
        if not re.search(r"impl std::ops::%s for %s" % (tr, re.escape(item["rust_name"])), src):
            raise vlib.AnchorLost("operator %s of %s not found" % (tr, d["name"]))
        L.append('    assert!((F::new(x) %s F::new(y)).as_int() == (x %s y), "C12:operator-%s-as-on-integers");' % (sym, sym, op))
        L.append("    {\n        let mut f = F::new(x);\n        f %s= F::new(y);" % sym)
        L.append('        assert!(f.as_int() == (x %s y), "C12:operator-%s-assign-as-on-integers");\n    }' % (sym, op))
        fns += ["<%s as %s>::%s" % (F, tr, op), "<%s as %sAssign>::%s_assign" % (F, tr, op)]
    # conversions
    fr = from_sources(item, item["rust_name"])
    tf = tryfrom_sources(item, item["rust_name"])
    blo, bhi = INT_RANGE[B]
    for S in SOURCES:
        if S not in fr and S not in tf:
            continue
        same_width_other_sign = (S != "usize" and WIDTH[S] == WIDTH[B] and S[0] != B[0])
        L.append("    {\n        let s: %s = kani::any();" % S)
        if same_width_other_sign:
            want = "%s::from_le_bytes(s.to_le_bytes())" % B
            fits = "true"
        else:
            want = "(s as i128) as %s" % B
            fits = "((s as i128) >= %d_i128 && (s as i128) <= %d_i128)" % (blo, bhi)
        if S in fr:
            L.append('        assert!(%s, "C12:infallible-conversion-from-%s-only-where-every-value-fits");' % (fits, S))
            L.append('        assert!(<F as From<%s>>::from(s).as_int() == %s, "C12:conversion-from-%s-preserves-value-or-bits");' % (S, want, S))
            fns.append("<%s as From<%s>>::from" % (F, S))
        else:
            L.append("        match <F as TryFrom<%s>>::try_from(s) {" % S)
            L.append('            Ok(f) => {')
            if S in ("i8", "i16", "i32") and WIDTH[S] < WIDTH[B] and B[0] == "u":
                L.append('                // diagnostic, evaluated only where the obligation is violated: recorded finding "narrower signed source is zero-extended"')
                L.append('                if !%s {\n                    assert!(f.as_int() == (u%d::from_le_bytes(s.to_le_bytes()) as %s), "KNOWNSIG[C12:try_from-%s-succeeds-only-when-value-fits]:not-the-recorded-zero-extension-behaviour");\n                }' % (fits, WIDTH[S], B, S))
            L.append('                assert!(%s, "C12:try_from-%s-succeeds-only-when-value-fits");' % (fits, S))
            L.append('                if %s {\n                    assert!(f.as_int() == %s, "C12:try_from-%s-preserves-value");\n                }\n            }' % (fits, want, S))
            L.append('            Err(e) => {\n                assert!(!%s, "C12:try_from-%s-accepts-every-fitting-value");' % (fits, S))
            L.append('                assert!(e == s, "C12:try_from-%s-error-returns-value");\n            }\n        }' % S)
            fns.append("<%s as TryFrom<%s>>::try_from" % (F, S))
        L.append("    }")
    L.append('    kani::cover!(true, "C12:cover-before-clear-clauses");')
    L += CL
    L.append("}")
    return "\n".join(L) + "\n", fns


# ------------------------------------------------------------------------------------------------

CRATES = [("wow_world_base", "inner", ["vanilla", "tbc", "wrath", "shared"]),
          ("wow_login_messages", "logon", ["sync"])]


def collect(repo, corpus, kind):
    """[(crate, features, item, definer)] for every generated enum (kind='enum') or flag (kind='flag')."""
    out = []
    for crate, sub, feats in CRATES:
        for it in scan_items(repo, crate, sub):
            d = corpus.by_loc.get((it["wowm_file"], it["wowm_line"]))
            if d is None or d["obj"] != "definer":
                continue
            if d["kind"] != kind:
                continue
            if (kind == "enum") != (it["rust_kind"] == "enum"):
                # an enum definer printed as struct or the reverse: cannot instantiate the contract
                raise vlib.AnchorLost("%s %s is generated as %s" % (kind, d["name"], it["rust_kind"]))
            out.append((crate, feats, it, d))
    return out
