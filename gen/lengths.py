"""C09(a): for every generated world message (and every struct it uses) emit a Verus obligation
    forall parameters p. inv(p) and len_X(p) <= FRAME  ==>  LO <= len_X(p) <= HI        (== K for constant guards)
where len_X is the wire-length formula read off the wowm definition (branch selectors, optional presence, string
lengths and array counts are the parameters; nested variable-size structs inside arrays enter through their own
proved interval - callee contract, not body) and LO/HI/K are the literals of the size guard compiled into the real
`read_inner` of the generated decoder, re-read from the source on every run."""
import re
from gen import containers as C
from spec import wowm

GUARD_NE = re.compile(r"fn read_inner\([^)]*\)[^{]*\{\s*if body_size != (\d+) \{")
GUARD_RANGE = re.compile(r"fn read_inner\([^)]*\)[^{]*\{\s*if !\((\d+)\.\.=(\d+)\)\.contains\(&body_size\) \{")
GUARD_GT = re.compile(r"fn read_inner\([^)]*\)[^{]*\{\s*if body_size > (\d+) \{")

FRAME = {("vanilla", "s"): 0xFFFF - 2, ("vanilla", "c"): 0xFFFF - 4, ("tbc", "s"): 0xFFFF - 2, ("tbc", "c"): 0xFFFF - 4,
         ("wrath", "s"): 0x7FFFFF - 2, ("wrath", "c"): 0xFFFF - 4}
COUNT_MAX = {1: 0xFF, 2: 0xFFFF, 4: 0xFFFFFFFF, 8: 0xFFFFFFFF}


class Skip(Exception):
    pass


def guard_of(src):
    m = GUARD_NE.search(src)
    if m:
        k = int(m.group(1))
        return ("eq", k, k)
    m = GUARD_RANGE.search(src)
    if m:
        return ("range", int(m.group(1)), int(m.group(2)))
    m = GUARD_GT.search(src)
    if m:
        return ("max", 0, int(m.group(1)))
    return None


def client_buffer_limit(print_common_impls_mod_rs):
    """Largest client message the language's reference clients can send (`0x2800`, stated in the generator where the
    guard is printed); used as the frame limit of client messages. Read from the source each run."""
    m = re.search(r"ContainerType::CMsg\(_\) => \{\s*(?://[^\n]*\n\s*)*(\d+)\s*\}", print_common_impls_mod_rs)
    if not m:
        raise Skip("client buffer limit not found")
    return int(m.group(1))


def read_language_constants(repo_main_rs):
    """limits the language text itself does not fix (string sizes): published constants, read from the source each run"""
    out = {}
    for name in ("CSTRING_SMALLEST_ALLOWED", "CSTRING_LARGEST_ALLOWED", "STRING_SMALLEST_POSSIBLE", "STRING_LARGEST_POSSIBLE"):
        m = re.search(r"const %s: \w+ = (\d+);" % name, repo_main_rs)
        if not m:
            raise Skip("constant %s not found" % name)
        out[name] = int(m.group(1))
    m = re.search(r"const SIZED_CSTRING_SMALLEST_ALLOWED: \w+ = (\d+) \+ (\d+);", repo_main_rs)
    m2 = re.search(r"const SIZED_CSTRING_LARGEST_ALLOWED: \w+ = (\d+) \+ (\d+);", repo_main_rs)
    if not m or not m2:
        raise Skip("sized cstring constants not found")
    out["SIZED_CSTRING_SMALLEST_ALLOWED"] = int(m.group(1)) + int(m.group(2))
    out["SIZED_CSTRING_LARGEST_ALLOWED"] = int(m2.group(1)) + int(m2.group(2))
    return out


class LenGen:
    """Builds (expr, params, requires, lo, hi) for one container in one version."""

    def __init__(self, res, consts, struct_iv):
        self.res = res
        self.k = consts
        self.struct_iv = struct_iv     # name -> (lo, hi) of structs (computed by interval(); proved by their own obligation)
        self.params = []
        self.req = []
        self.n = 0

    def p(self, hint, ty="int"):
        self.n += 1
        name = "p%d_%s" % (self.n, re.sub(r"\W", "_", hint))[:48]
        self.params.append((name, ty))
        return name

    def leaf(self, hint, lo, hi):
        if lo == hi:
            return "%dint" % lo, lo, hi
        v = self.p(hint)
        self.req.append("%d <= %s <= %d" % (lo, v, hi))
        return v, lo, hi

    def members(self, ms, scope):
        es, lo, hi = [], 0, 0
        for m in ms:
            e, a, b = self.member(m, scope)
            es.append(e)
            lo += a
            hi += b
        return ("(" + " + ".join(es) + ")") if es else "0int", lo, hi

    def member(self, m, scope):
        k = m["k"]
        if k == "unimplemented":
            raise Skip("unimplemented member")
        if k == "optional":
            e, a, b = self.members(m["members"], dict(scope))
            v = self.p("optional_" + m["name"], "bool")
            return "(if %s { %s } else { 0int })" % (v, e), 0, b
        if k == "if":
            sel = self.p("branch")
            parts, los, his = [], [], []
            for i, br in enumerate(m["branches"]):
                e, a, b = self.members(br["members"], dict(scope))
                parts.append((i, e))
                los.append(a)
                his.append(b)
            if m["else_"] is not None:
                e, a, b = self.members(m["else_"], dict(scope))
            else:
                e, a, b = "0int", 0, 0
            los.append(a)
            his.append(b)
            s = ""
            for i, pe in parts:
                s += "if %s == %d { %s } else " % (sel, i, pe)
            s += "{ %s }" % e
            return "(" + s + ")", min(los), max(his)
        if any(t == "compressed" for t, _ in m["tags"]):
            raise Skip("compressed member")
        return self.field(m["ty"], m["name"], scope)

    def prim_size(self, name):
        if name in C.LE:
            return C.LE[name]
        if name in C.BE:
            return C.BE[name]
        if name in C.BOOL:
            return C.BOOL[name]
        if name == "DateTime":
            return 4
        return None

    def field(self, ty, name, scope):
        if ty["t"] == "array":
            return self.array(ty, name, scope)
        t = ty["name"]
        up = ty.get("upcast")
        s = self.prim_size(t)
        if s is not None and not up:
            scope[name] = s
            return "%dint" % s, s, s
        if t == "PackedGuid":
            return self.leaf(name, 1, 9)
        if t == "CString":
            return self.leaf(name, self.k["CSTRING_SMALLEST_ALLOWED"], self.k["CSTRING_LARGEST_ALLOWED"])
        if t == "SizedCString":
            return self.leaf(name, self.k["SIZED_CSTRING_SMALLEST_ALLOWED"], self.k["SIZED_CSTRING_LARGEST_ALLOWED"])
        if t == "String":
            return self.leaf(name, self.k["STRING_SMALLEST_POSSIBLE"], self.k["STRING_LARGEST_POSSIBLE"])
        if t == "NamedGuid":
            return self.leaf(name, 8, 8 + self.k["CSTRING_LARGEST_ALLOWED"])
        if t == "VariableItemRandomProperty":
            return self.leaf(name, 4, 8)
        if t in ("UpdateMask", "MonsterMoveSplines", "AuraMask", "AchievementDoneArray", "AchievementInProgressArray", "CacheMask",
                 "AddonArray", "EnchantMask", "InspectTalentGearMask"):
            raise Skip("built-in %s (its size bounds are a separate contract)" % t)
        o = self.res.lookup(t)
        if o["obj"] == "definer":
            base = up or o["base"]
            s = self.prim_size(base)
            if s is None:
                raise Skip("definer base " + base)
            scope[name] = s
            return "%dint" % s, s, s
        if o["kind"] != "struct":
            raise Skip("member kind " + o["kind"])
        if any(tg == "compressed" for tg, _ in o["tags"]):
            raise Skip("compressed struct")
        return self.members(o["members"], {})

    def elem_interval(self, inner):
        t = inner["name"]
        s = self.prim_size(t) if not inner.get("upcast") else None
        if s is not None:
            return s, s
        if t == "PackedGuid":
            return 1, 9
        if t == "CString":
            return self.k["CSTRING_SMALLEST_ALLOWED"], self.k["CSTRING_LARGEST_ALLOWED"]
        o = self.res.lookup(t)
        if o["obj"] == "definer":
            s = self.prim_size(inner.get("upcast") or o["base"])
            return s, s
        if o["kind"] == "struct":
            key = (o["file"], o["line"])
            if key not in self.struct_iv:
                g = LenGen(self.res, self.k, self.struct_iv)
                _, a, b = g.members(o["members"], {})
                self.struct_iv[key] = (a, b, o)
            return self.struct_iv[key][0], self.struct_iv[key][1]
        raise Skip("array element " + t)

    def array(self, ty, name, scope):
        emin, emax = self.elem_interval(ty["inner"])
        size = ty["size"]
        if isinstance(size, int):
            if emin == emax:
                return "%dint" % (size * emin), size * emin, size * emax
            v = self.p(name + "_total")
            self.req.append("%d <= %s <= %d" % (size * emin, v, size * emax))
            return v, size * emin, size * emax
        if size == "-":
            v = self.p(name + "_endless_total")
            self.req.append("0 <= %s" % v)
            return v, 0, 0x7FFFFFFF
        # variable: the count is an earlier integer member of this container
        width = scope.get(size)
        if width is None:
            raise Skip("array count member %s not found" % size)
        cmax = COUNT_MAX[width]
        c = self.p(name + "_count")
        v = self.p(name + "_total")
        self.req.append("0 <= %s <= %d" % (c, cmax))
        self.req.append("%s * %d <= %s <= %s * %d" % (c, emin, v, c, emax))
        return v, 0, cmax * emax


def obligation(item, d, res, consts, struct_iv, guard, frame, name):
    g = LenGen(res, consts, struct_iv)
    e, lo, hi = g.members(d["members"], {})
    kind, glo, ghi = guard
    params = ", ".join("%s: %s" % p for p in g.params) or "unit: int"
    req = list(g.req) + ["len_%s(%s) <= %d" % (name, ", ".join(p for p, _ in g.params) or "0", frame)]
    L = []
    L.append("// %s  <-  %s:%d ; guard in %s: %s %d..=%d ; frame limit %d" % (d["name"], d["file"], d["line"], item["rel"], kind, glo, ghi, frame))
    L.append("pub open spec fn len_%s(%s) -> int {\n    %s\n}" % (name, params, e))
    ens = "len_%s(%s) == %d" % (name, ", ".join(p for p, _ in g.params) or "0", glo) if kind == "eq" else \
        "%d <= len_%s(%s) <= %d" % (glo, name, ", ".join(p for p, _ in g.params) or "0", ghi)
    L.append("pub proof fn c09_%s(%s)\n    requires\n        %s,\n    ensures\n        %s,\n{\n}" % (name, params, ",\n        ".join(req), ens))
    return "\n".join(L) + "\n", (lo, hi)
