"""C13 (accessors): every generated typed accessor of helper/<ver>/update_mask/impls.rs is checked, modularly, against the
published update-field table (wowm_language/src/types/update-mask.md): the accessor is a one-line call into the
update-mask core; the core's entry points are replaced by `#[kani::stub]`s that record (kind, field index, value words,
dirty-tracking on/off), and the contract says the record equals what the table row prescribes."""
import os
import re
from lib import vlib

VERS = {"vanilla": "### Version 1.12", "tbc": "### Version 2.4.3", "wrath": "### Version 3.3.5"}
KIND_OF_HEADING = {"objects": "object", "items": "item", "containers": "container", "units": "unit", "players": "player",
                   "gameobjects": "gameobject", "dynamicobjects": "dynamicobject", "corpses": "corpse"}
TYPE_KINDS = {"UpdateItem": ["object", "item"], "UpdateContainer": ["object", "item", "container"], "UpdateUnit": ["object", "unit"],
              "UpdatePlayer": ["object", "unit", "player"], "UpdateGameObject": ["object", "gameobject"],
              "UpdateDynamicObject": ["object", "dynamicobject"], "UpdateCorpse": ["object", "corpse"]}
TAG = {"GUID": 1, "INT": 2, "FLOAT": 3, "BYTES": 4, "TWO_SHORT": 5}
CHUNK = 60


def read_table(repo, ver):
    md = vlib.read(os.path.join(repo, "wowm_language/src/types/update-mask.md"))
    start = md.index(VERS[ver])
    nxt = [md.find(h, start + 5) for h in VERS.values() if md.find(h, start + 5) > 0]
    sect = md[start:min(nxt) if nxt else len(md)]
    rows = {}
    kind = None
    for line in sect.splitlines():
        m = re.match(r"Fields that all (\w+) have:", line)
        if m:
            kind = KIND_OF_HEADING.get(m.group(1))
            continue
        m = re.match(r"\|`(\w+)`\| (0x[0-9a-fA-F]+) \| (\d+) \| (\w+) \|", line)
        if m and kind:
            rows.setdefault(kind, {})[m.group(1).lower()] = dict(name=m.group(1), offset=int(m.group(2), 16), size=int(m.group(3)), ty=m.group(4))
    if not rows:
        raise vlib.AnchorLost("update-field table of %s not found" % ver)
    return rows


FN = re.compile(r"^    pub fn (\w+)\((&mut self|mut self|&self)(?:, )?([^)]*)\)(?: -> ([^{]+?))? \{$", re.M)


def parse_impls(repo, ver):
    p = os.path.join(repo, "wow_world_messages/src/helper/%s/update_mask/impls.rs" % ver)
    src = vlib.read(p)
    out = {}
    for m in re.finditer(r"^impl (\w+) \{$", src, re.M):
        ob = src.index("{", m.start())
        end = vlib.match_brace(src, ob)
        body = src[ob:end]
        fns = []
        for f in FN.finditer(body):
            fns.append(dict(name=f.group(1), recv=f.group(2), args=f.group(3).strip(), ret=(f.group(4) or "").strip()))
        out[m.group(1)] = fns
    if not out:
        raise vlib.AnchorLost("no impl blocks in " + p)
    return out


def classify_args(args):
    """-> kind of primitive setter the signature corresponds to, and the harness expressions"""
    ps = [a.strip() for a in args.split(",") if a.strip()]
    tys = [a.split(":")[1].strip() for a in ps]
    if tys == ["i32"]:
        return "INT"
    if tys == ["f32"]:
        return "FLOAT"
    if tys == ["Guid"]:
        return "GUID"
    if tys == ["u8", "u8", "u8", "u8"]:
        return "BYTES"
    if tys == ["u16", "u16"]:
        return "TWO_SHORT"
    return None


RET = {"Option<i32>": "INT", "Option<f32>": "FLOAT", "Option<Guid>": "GUID", "Option<(u8, u8, u8, u8)>": "BYTES", "Option<(u16, u16)>": "TWO_SHORT"}

PRELUDE = r"""// generated each run by gen/updatemask.py (C13 accessors, @VER@)
use super::super::*;
use crate::Guid;
use std::collections::BTreeMap;

// ---- recording stand-ins for the update-mask core (the core itself is under the c13_inners contracts) ----
fn rec(header: &mut Vec<u32>, dirty: bool, tag: u32, bit: u16, w0: u32, w1: u32) {
    header.clear();
    header.push(tag);
    header.push(bit as u32);
    header.push(w0);
    header.push(w1);
    header.push(dirty as u32);
}
pub fn stub_set_guid(values: &mut BTreeMap<u16, u32>, header: &mut Vec<u32>, dirty_mask: Option<&mut Vec<u32>>, bit: u16, guid: Guid) {
    rec(header, dirty_mask.is_some(), 1, bit, guid.guid() as u32, (guid.guid() >> 32) as u32);
}
pub fn stub_set_int(values: &mut BTreeMap<u16, u32>, header: &mut Vec<u32>, dirty_mask: Option<&mut Vec<u32>>, bit: u16, v: i32) {
    rec(header, dirty_mask.is_some(), 2, bit, v as u32, 0);
}
pub fn stub_set_float(values: &mut BTreeMap<u16, u32>, header: &mut Vec<u32>, dirty_mask: Option<&mut Vec<u32>>, bit: u16, v: f32) {
    rec(header, dirty_mask.is_some(), 3, bit, v.to_bits(), 0);
}
pub fn stub_set_bytes(values: &mut BTreeMap<u16, u32>, header: &mut Vec<u32>, dirty_mask: Option<&mut Vec<u32>>, bit: u16, a: u8, b: u8, c: u8, d: u8) {
    rec(header, dirty_mask.is_some(), 4, bit, u32::from_le_bytes([a, b, c, d]), 0);
}
pub fn stub_set_shorts(values: &mut BTreeMap<u16, u32>, header: &mut Vec<u32>, dirty_mask: Option<&mut Vec<u32>>, bit: u16, a: u16, b: u16) {
    rec(header, dirty_mask.is_some(), 5, bit, a as u32, b as u32);
}
pub fn stub_get_guid(values: &BTreeMap<u16, u32>, bit: u16) -> Option<Guid> {
    Some(Guid::new(0x1_0000 + bit as u64))
}
pub fn stub_get_int(values: &BTreeMap<u16, u32>, bit: u16) -> Option<i32> {
    Some(0x2_0000 + bit as i32)
}
pub fn stub_get_float(values: &BTreeMap<u16, u32>, bit: u16) -> Option<f32> {
    Some(f32::from_bits(0x3_0000 + bit as u32))
}
pub fn stub_get_bytes(values: &BTreeMap<u16, u32>, bit: u16) -> Option<(u8, u8, u8, u8)> {
    Some((bit as u8, (bit >> 8) as u8, 4, 0))
}
pub fn stub_get_shorts(values: &BTreeMap<u16, u32>, bit: u16) -> Option<(u16, u16)> {
    Some((bit, 5))
}
fn is_rec(h: &Vec<u32>, tag: u32, bit: u32, w0: u32, w1: u32, dirty: u32) -> bool {
    h.len() == 5 && h[0] == tag && h[1] == bit && h[2] == w0 && h[3] == w1 && h[4] == dirty
}
"""

STUBS = "\n".join("#[kani::stub(crate::helper::update_mask_common::inners::%s, stub_%s)]" % (f, f)
                  for f in ("set_guid", "set_int", "set_float", "set_bytes", "set_shorts", "get_guid", "get_int", "get_float", "get_bytes", "get_shorts"))


def gen_version(repo, ver):
    table = read_table(repo, ver)
    impls = parse_impls(repo, ver)
    code = [PRELUDE.replace("@VER@", ver)]
    specs = {}
    skipped = []
    n_acc = 0
    prefix = "helper::%s::update_mask::verif_kani::c13_accessors" % ver
    for ty, fns in impls.items():
        base = ty[:-7] if ty.endswith("Builder") else ty
        if base not in TYPE_KINDS:
            continue
        is_builder = ty.endswith("Builder")
        rows = {}
        for k in TYPE_KINDS[base]:
            rows.update(table.get(k, {}))
        checks = []
        for f in fns:
            if f["name"].startswith("set_"):
                field = f["name"][4:]
                kind = classify_args(f["args"])
            else:
                field = f["name"]
                kind = RET.get(f["ret"]) if not f["args"] else None
            row = rows.get(field)
            if row is None or kind is None:
                skipped.append("%s::%s(%s)%s" % (ty, f["name"], f["args"], " -> " + f["ret"] if f["ret"] else ""))
                continue
            off, size, tty = row["offset"], row["size"], row["ty"]
            width = 2 if kind == "GUID" else 1
            lines = []
            lines.append("    // %s: table row %s offset %#06x size %d type %s" % (f["name"], row["name"], off, size, tty))
            if tty != "CUSTOM" and tty != kind:
                lines.append('    assert!(false, "C13:%s-has-the-type-the-table-lists-(%s-vs-%s)");' % (f["name"], kind, tty))
            if width > size:
                lines.append('    assert!(false, "C13:%s-is-not-wider-than-the-table-field");' % f["name"])
            if f["name"].startswith("set_"):
                dirty = 0 if is_builder else 1
                if kind == "INT":
                    arg, w0, w1 = "v_i32", "v_i32 as u32", "0"
                elif kind == "FLOAT":
                    arg, w0, w1 = "f32::from_bits(v_u32)", "v_u32", "0"
                elif kind == "GUID":
                    arg, w0, w1 = "Guid::new(v_u64)", "v_u64 as u32", "(v_u64 >> 32) as u32"
                elif kind == "BYTES":
                    arg, w0, w1 = "b0, b1, b2, b3", "u32::from_le_bytes([b0, b1, b2, b3])", "0"
                else:
                    arg, w0, w1 = "s0, s1", "s0 as u32", "s1 as u32"
                if is_builder:
                    lines.append("    let m = fresh_%s().%s(%s);" % (ty, f["name"], arg))
                else:
                    lines.append("    let mut m = fresh_%s();\n    m.%s(%s);" % (ty, f["name"], arg))
                lines.append('    assert!(is_rec(&m.header, %d, %d, %s, %s, %d), "C13:%s::%s-addresses-the-table-offset-and-width");' % (TAG[kind], off, w0, w1, dirty, ty, f["name"]))
                lines.append("    std::mem::forget(m);")
            else:
                want = {"INT": "Some(0x2_0000 + %d)" % off, "FLOAT": "Some(f32::from_bits(0x3_0000 + %d))" % off,
                        "GUID": "Some(Guid::new(0x1_0000 + %d))" % off, "BYTES": "Some((%d, %d, 4, 0))" % (off & 0xFF, off >> 8),
                        "TWO_SHORT": "Some((%d, 5))" % off}[kind]
                lines.append("    let m = fresh_%s();" % ty)
                lines.append('    assert!(m.%s() == %s, "C13:%s::%s-reads-the-table-offset-with-the-table-type");' % (f["name"], want, ty, f["name"]))
                lines.append("    std::mem::forget(m);")
            checks.append("\n".join(lines))
            n_acc += 1
        # constructor without going through the real core
        if is_builder:
            code.append("fn fresh_%s() -> %s {\n    %s { header: Vec::with_capacity(8), values: BTreeMap::new() }\n}" % (ty, ty, ty))
        else:
            code.append("fn fresh_%s() -> %s {\n    %s { header: Vec::with_capacity(8), dirty_mask: Vec::new(), values: BTreeMap::new() }\n}" % (ty, ty, ty))
        for ci in range(0, len(checks), CHUNK):
            hn = "c13_acc_%s_%d" % (ty.lower(), ci // CHUNK)
            code.append("#[kani::proof]\n#[kani::unwind(3)]\n%s\nfn %s() {" % (STUBS, hn))
            code.append("    let v_i32: i32 = kani::any();\n    let v_u32: u32 = kani::any();\n    let v_u64: u64 = kani::any();")
            code.append("    let (b0, b1, b2, b3): (u8, u8, u8, u8) = (kani::any(), kani::any(), kani::any(), kani::any());")
            code.append("    let (s0, s1): (u16, u16) = (kani::any(), kani::any());")
            code += checks[ci:ci + CHUNK]
            code.append('    kani::cover!(true, "C13:cover-end");\n}')
            specs["%s::%s" % (prefix, hn)] = dict(kind="complete", default_prop="C13",
                                                  functions=["helper::%s::update_mask::impls::%s accessors %d..%d" % (ver, ty, ci, min(len(checks), ci + CHUNK))])
    code.append("#[kani::proof]\n#[kani::unwind(3)]\nfn c13_acc_canary() {\n    let mut h: Vec<u32> = Vec::with_capacity(8);\n    rec(&mut h, true, 1, 2, 3, 4);\n    assert!(!is_rec(&h, 1, 2, 3, 4, 1), \"CANARY:c13acc\");\n}")
    specs["%s::c13_acc_canary" % prefix] = dict(canary=True)
    inj = dict(host="src/helper/%s/update_mask/mod.rs" % ver, moddir="src/helper/%s/update_mask/verif_kani" % ver,
               modules={"c13_accessors": "\n".join(code) + "\n"}, prefix="helper::%s::update_mask::verif_kani" % ver)
    return inj, specs, dict(accessors_checked=n_acc, skipped=len(skipped), skipped_examples=skipped[:12])
