#!/bin/sh
# Offline setup: nothing is fetched or pre-built; verify the tools the checks need and create output dirs.
set -e
cd "$(dirname "$0")"
for t in verus cargo-kani cbmc z3 python3 rsync; do
  command -v "$t" >/dev/null 2>&1 || { echo "missing tool: $t" >&2; exit 1; }
done
mkdir -p evidence replays logs
python3 - <<'PY'
import json, sys
m = json.load(open('MANIFEST.json'))
assert m['version'] == 1
print("setup ok: %d checks registered" % len(m['checks']))
PY
