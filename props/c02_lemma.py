"""C02(e): the stream-alignment lemma over the contracts (Verus, unbounded)."""
import os
import shutil
from lib import vlib


def run(run, scratch):
    src_path = os.path.join(vlib.VERIF, "contracts/verus/c02_concat.rs")
    dst = os.path.join(scratch, "c02_concat.rs")
    shutil.copy(src_path, dst)
    src = vlib.read(dst)
    vr = vlib.verus_run(dst)
    run.absorb_verus(vr, dst, {
        "lemma_stream_decodes": dict(obligation="C02:concatenation-decodes-to-same-sequence",
                                     functions=["(lemma over the reader/writer contracts)"]),
        "lemma_stream_fully_consumed": dict(obligation="C02:concatenation-fully-consumed", functions=[]),
        "canary_c02_concat": dict(canary=True),
    }, src)
