"""C04 — out-of-domain field values are rejected: per-container contracts (enum members at full wire width, fixed-size
bodies) + the opcode-dispatch slices (unknown opcodes)."""
from props import containers_common as cc
from gen import opcodes

PROP = "C04"


def extra(scratch):
    return [opcodes.batch(scratch)]


def check(tier, seed):
    return cc.run_check(PROP, tier, seed, extra_batches=extra)


def replay(path):
    return cc.replay(PROP, path, extra_batches=extra)
