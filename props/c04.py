"""C04 — per-container contracts (see props/containers_common.py and gen/containers.py)."""
from props import containers_common as cc

PROP = "C04"


def check(tier, seed):
    return cc.run_check(PROP, tier, seed)


def replay(path):
    return cc.replay(PROP, path)
