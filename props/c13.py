"""C13 — UpdateMask accessors, dirty tracking and wire form agree with the field table.
K (bounded): contracts on the hand-written core (inners.rs): bit bookkeeping, typed set/get round trips, wire form, size.
K (complete, modular): every primitive-typed generated accessor against the published update-field table, the core
   replaced by recording stubs (callee contract, not body).
V: history lemma - per-operation contracts + invariant => after any finite sequence each getter returns the last value set."""
import os
import shutil
from lib import vlib, selection
from gen import updatemask

PROP = "C13"
QUICK_ACCESSOR_HARNESSES = 6
FEATURES = ["sync", "vanilla", "tbc", "wrath"]
P = "verif_kani::c13_inners::"
INNER = {
    "c13_array_set_contract": ("masks of at most 3 blocks (field index < 96)", ["inners::array_set"]),
    "c13_array_reset_fill_contract": ("masks of at most 3 blocks", ["inners::array_reset", "inners::array_fill_ones", "inners::has_array_bit_set", "inners::has_any_bit_set"]),
    "c13_update_mask_size_contract": ("masks of at most 3 blocks", ["inners::update_mask_size"]),
    "c13_int_roundtrip": ("one field, index < 62", ["inners::set_int", "inners::get_int", "inners::header_set"]),
    "c13_float_roundtrip": ("one field, index < 62", ["inners::set_float", "inners::get_float"]),
    "c13_bytes_roundtrip": ("one field, index < 62", ["inners::set_bytes", "inners::get_bytes"]),
    "c13_shorts_roundtrip": ("one field, index < 62", ["inners::set_shorts", "inners::get_shorts"]),
    "c13_guid_set_contract": (None, ["inners::set_guid", "Guid::to_u32s", "Guid::from_u32s"]),
    "c13_write_one_field": ("one field, index < 32 (one block), optional dirty_reset", ["inners::write_into_vec", "inners::update_mask_size"]),
    "c13_read_one_block": ("one block with one field at index 0, 5 or 31", ["inners::read_inner"]),
}


def batches(scratch, tier="thorough", seed=0):
    mods = {"spec_rt": vlib.read(os.path.join(vlib.VERIF, "contracts/kani/spec_rt.rs")),
            "c13_inners": vlib.read(os.path.join(vlib.VERIF, "contracts/kani/c13_inners.rs"))}
    specs = {}
    for h, (bound, fns) in INNER.items():
        specs[P + h] = dict(kind=("bounded" if bound else "complete"), bound=bound, default_prop=PROP, functions=["helper::update_mask_common::" + f for f in fns])
    specs[P + "c13_canary"] = dict(canary=True)
    injs = []
    meta = {}
    vers = ["vanilla", "tbc", "wrath"]
    changed = []
    if tier == "quick":
        # every version whose impls.rs / table differs from the baseline, plus one seeded version
        changed = [v for v in vers if selection.changed(["wow_world_messages/src/helper/%s/update_mask/impls.rs" % v,
                                                         "wow_world_messages/src/helper/%s/update_mask/indices.rs" % v,
                                                         "wowm_language/src/types/update-mask.md"])]
        pick = vers[seed % 3]
        vers = sorted(set(changed + [pick]))
    import random
    for v in vers:
        inj, sp, m = updatemask.gen_version(vlib.REPO, v)
        if tier == "quick" and v not in changed:
            # unchanged version: a VERIF_SEED sample of its accessor contracts (each covers up to 60 accessors)
            keys = sorted(k for k in sp if not sp[k].get("canary"))
            random.Random(seed).shuffle(keys)
            keep = set(keys[:QUICK_ACCESSOR_HARNESSES])
            sp = {k: val for k, val in sp.items() if k in keep or val.get("canary")}
            m = dict(m, quick_sample_of_harnesses=len(keep))
        injs.append(inj)
        specs.update(sp)
        meta[v] = m
    b = vlib.Batch("wow_world_messages", FEATURES, mods, specs, stubbing=True, jobs=8,
                   harness_timeout=(1800 if tier == "thorough" else 600), more_injections=injs)
    b.meta = meta
    return [b]


def lemma(run, scratch):
    dst = os.path.join(scratch, "c13_history.rs")
    shutil.copy(os.path.join(vlib.VERIF, "contracts/verus/c13_history.rs"), dst)
    vr = vlib.verus_run(dst)
    run.absorb_verus(vr, dst, {
        "lemma_history_last_write_wins": dict(obligation="C13:getter-returns-last-value-set-after-any-history"),
        "lemma_invariant_preserved": dict(obligation="C13:representation-invariant-preserved-by-every-operation"),
        "canary_c13_history": dict(canary=True),
    }, vlib.read(dst))


def check(tier, seed):
    run = vlib.Run(PROP, tier, seed)
    scratch = vlib.make_scratch()
    try:
        bs = batches(scratch, tier, seed)
        vlib.run_batches(run, scratch, bs)
        lemma(run, scratch)
        run.extra["accessors"] = bs[0].meta
        run.trusted += ["Kani 0.68 / CBMC 6.11; Verus 0.2026.09.13 / Z3", "the published table wowm_language/src/types/update-mask.md as the statement of offsets/sizes/types",
                        "std Vec / BTreeMap as compiled by Kani"]
        run.assumptions += [
            "core contracts (inners.rs) are BOUNDED: masks <= 3 blocks, one (guid: two) map entries; CBMC does not scale to larger BTreeMaps and Verus rejects the iterator/IndexMut/BTreeMap code",
            "accessor contracts replace the core entry points by recording stubs (#[kani::stub]); the forwarding macro methods (update_item!) are real code inside the contract",
            "accessors with enum-typed or struct/index arguments (unit_bytes_0/1, visible_item, skill_info, field_inv, ...) are not covered: listed under accessors.<version>.skipped_examples",
            "an accessor narrower than the table field (e.g. one INT accessor on a 5-word field) is accepted if it starts at the table offset and stays inside the field",
            "UpdateMask::read's object-kind selection and SMSG_UPDATE_OBJECT embedding are not under contract",
        ]
        run.samples = ["c13_acc_updateunit_0: set_unit_health(v) records (INT, offset 0x16, v, dirty) and unit_health() requests offset 0x16 as INT, for every v",
                       "c13_array_set_contract: exactly one bit added, growth to bit/32+1, all other bits unchanged (<= 3 blocks)"]
        return run.finish(vlib.make_kani_replay_hook(run, scratch, bs))
    finally:
        vlib.drop_scratch(scratch)


def replay(path):
    return vlib.replay_kani(PROP, path, lambda s: batches(s, "thorough", 0))
