"""C15 — DateTime accepts exactly real calendar instants; accessors invert its packing."""
import os
from lib import vlib

PROP = "C15"
FEATURES = ["vanilla", "tbc", "wrath", "shared"]
P = "verif_kani::c15_datetime::"


def batches(scratch):
    src = vlib.read(os.path.join(vlib.VERIF, "contracts/kani/c15_datetime.rs"))
    fns = ["wow_world_base::DateTime::try_from(u32)", "DateTime::new", "DateTime::as_int", "DateTime::minutes",
           "DateTime::hours", "DateTime::weekday", "DateTime::month_day", "DateTime::month", "DateTime::years_after_2000",
           "predicted_weekday", "Month::maximum_days", "Month::days_from_previous_months", "leap_year",
           "Weekday::try_from(u32)", "Month::try_from(u32)"]
    specs = {
        P + "c15_try_from_contract": dict(kind="complete", functions=fns, default_prop=PROP),
        P + "c15_new_accessors_contract": dict(kind="complete", functions=fns[1:9], default_prop=PROP),
        P + "c15_canary": dict(canary=True),
    }
    return [vlib.Batch("wow_world_base", FEATURES, {"c15_datetime": src}, specs, jobs=3, harness_timeout=900)]


def check(tier, seed):
    run = vlib.Run(PROP, tier, seed)
    scratch = vlib.make_scratch()
    try:
        bs = batches(scratch)
        vlib.run_batches(run, scratch, bs)
        run.trusted += ["Kani 0.68 MIR->goto translation and CBMC 6.11 / CaDiCaL are sound",
                        "the specification in contracts/kani/c15_datetime.rs (bit fields, Gregorian month lengths, "
                        "Sakamoto weekday congruence) states the property"]
        run.assumptions += ["no assume() other than argument ranges of DateTime::new (fields within their bit widths)",
                            "Display / chrono conversion of DateTime are not under contract"]
        run.samples = ["c15_try_from_contract: forall v:u32. try_from(v).is_ok() <=> spec_valid(v); Ok(d) => d.as_int()==v and every accessor == its bit field",
                       "c15_new_accessors_contract: forall in-range fields. accessors(new(..)) == fields"]
        run.extra["exhaustive_domain"] = "all 2^32 inputs, symbolically (loop-free harness, unwind 1 with unwinding assertions)"
        return run.finish(vlib.make_kani_replay_hook(run, scratch, bs))
    finally:
        vlib.drop_scratch(scratch)


def replay(path):
    return vlib.replay_kani(PROP, path, batches)
