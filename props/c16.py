"""C16 (kernel) — the version algebra used for lookup and clash detection: WorldVersion::{overlaps, covers},
LoginVersion::{overlaps, fullfills} extracted verbatim from wow_message_parser each run and proved against set
semantics (a version pattern denotes the set of exact builds it matches). The rule -> exit-status behaviour of the
generator process is NOT decided here (see DESIGN.md C16)."""
import os
from lib import vlib

PROP = "C16"
SRC = "wow_message_parser/src/parser/types/version.rs"

SPEC = r"""
// ---- specification: a pattern denotes a set of exact builds (major, minor, patch, build) --------------
pub open spec fn den(v: WorldVersion, e: (u8, u8, u8, u16)) -> bool {
    match v {
        WorldVersion::Major(m) => e.0 == m,
        WorldVersion::Minor(m, i) => e.0 == m && e.1 == i,
        WorldVersion::Patch(m, i, p) => e.0 == m && e.1 == i && e.2 == p,
        WorldVersion::Exact(m, i, p, b) => e.0 == m && e.1 == i && e.2 == p && e.3 == b,
        WorldVersion::All => true,
    }
}
pub open spec fn sets_overlap(a: WorldVersion, b: WorldVersion) -> bool { exists|e: (u8, u8, u8, u16)| den(a, e) && den(b, e) }
pub open spec fn set_covers(a: WorldVersion, b: WorldVersion) -> bool { forall|e: (u8, u8, u8, u16)| den(b, e) ==> den(a, e) }

// closed forms (number of fixed components + agreement on the common prefix); linked to the set semantics by the lemmas below
pub open spec fn level(v: WorldVersion) -> int {
    match v { WorldVersion::All => 0, WorldVersion::Major(_) => 1, WorldVersion::Minor(_, _) => 2, WorldVersion::Patch(_, _, _) => 3, WorldVersion::Exact(_, _, _, _) => 4 }
}
pub open spec fn comp(v: WorldVersion, k: int) -> int {
    match v {
        WorldVersion::All => 0,
        WorldVersion::Major(m) => if k == 0 { m as int } else { 0 },
        WorldVersion::Minor(m, i) => if k == 0 { m as int } else if k == 1 { i as int } else { 0 },
        WorldVersion::Patch(m, i, p) => if k == 0 { m as int } else if k == 1 { i as int } else if k == 2 { p as int } else { 0 },
        WorldVersion::Exact(m, i, p, b) => if k == 0 { m as int } else if k == 1 { i as int } else if k == 2 { p as int } else { b as int },
    }
}
pub open spec fn agree(a: WorldVersion, b: WorldVersion, n: int) -> bool {
    (n > 0 ==> comp(a, 0) == comp(b, 0)) && (n > 1 ==> comp(a, 1) == comp(b, 1)) && (n > 2 ==> comp(a, 2) == comp(b, 2)) && (n > 3 ==> comp(a, 3) == comp(b, 3))
}
pub open spec fn overlaps_closed(a: WorldVersion, b: WorldVersion) -> bool {
    agree(a, b, if level(a) < level(b) { level(a) } else { level(b) })
}
pub open spec fn covers_closed(a: WorldVersion, b: WorldVersion) -> bool { level(a) <= level(b) && agree(a, b, level(a)) }

// witness: an exact build inside b (and inside a wherever a fixes a component b leaves free)
pub open spec fn pick(a: WorldVersion, b: WorldVersion) -> (u8, u8, u8, u16) {
    (
        (if level(b) > 0 { comp(b, 0) } else { comp(a, 0) }) as u8,
        (if level(b) > 1 { comp(b, 1) } else { comp(a, 1) }) as u8,
        (if level(b) > 2 { comp(b, 2) } else { comp(a, 2) }) as u8,
        (if level(b) > 3 { comp(b, 3) } else { comp(a, 3) }) as u16,
    )
}
// an exact build inside b that differs from a in a's first component that b leaves free
pub open spec fn escape(a: WorldVersion, b: WorldVersion) -> (u8, u8, u8, u16) {
    let w = pick(a, b);
    let l = level(b);
    (
        if l == 0 { (if w.0 == 255u8 { 0u8 } else { (w.0 + 1) as u8 }) } else { w.0 },
        if l == 1 { (if w.1 == 255u8 { 0u8 } else { (w.1 + 1) as u8 }) } else { w.1 },
        if l == 2 { (if w.2 == 255u8 { 0u8 } else { (w.2 + 1) as u8 }) } else { w.2 },
        if l == 3 { (if w.3 == 65535u16 { 0u16 } else { (w.3 + 1) as u16 }) } else { w.3 },
    )
}

pub proof fn lemma_overlaps_is_set_intersection(a: WorldVersion, b: WorldVersion)
    ensures overlaps_closed(a, b) == sets_overlap(a, b),
{
    if overlaps_closed(a, b) {
        let w = pick(a, b);
        assert(den(a, w) && den(b, w));
    } else {
        assert forall|e: (u8, u8, u8, u16)| !(den(a, e) && den(b, e)) by { }
    }
}
pub proof fn lemma_covers_is_set_inclusion(a: WorldVersion, b: WorldVersion)
    ensures covers_closed(a, b) == set_covers(a, b),
{
    if covers_closed(a, b) {
        assert forall|e: (u8, u8, u8, u16)| den(b, e) implies den(a, e) by { }
    } else {
        if level(a) > level(b) {
            let w = escape(a, b);
            assert(den(b, w) && !den(a, w));
        } else {
            let w = pick(a, b);
            assert(den(b, w) && !den(a, w));
        }
    }
}
// corollaries used by the generator's clash detection / lookup
pub proof fn lemma_overlaps_symmetric(a: WorldVersion, b: WorldVersion)
    ensures overlaps_closed(a, b) == overlaps_closed(b, a),
{ }
pub proof fn lemma_covers_reflexive_transitive(a: WorldVersion, b: WorldVersion, c: WorldVersion)
    ensures covers_closed(a, a), covers_closed(a, b) && covers_closed(b, c) ==> covers_closed(a, c),
{ }
pub proof fn lemma_covers_implies_overlaps(a: WorldVersion, b: WorldVersion)
    ensures covers_closed(a, b) ==> overlaps_closed(a, b),
{ }

// ---- login versions -----------------------------------------------------------------------------------
pub open spec fn lden(v: LoginVersion, e: u8) -> bool { match v { LoginVersion::Specific(x) => e == x, LoginVersion::All => true } }
pub open spec fn l_overlaps_closed(a: LoginVersion, b: LoginVersion) -> bool {
    match (a, b) { (LoginVersion::Specific(x), LoginVersion::Specific(y)) => x == y, _ => true }
}
pub open spec fn l_covers_closed(a: LoginVersion, b: LoginVersion) -> bool {
    match (a, b) { (LoginVersion::All, _) => true, (LoginVersion::Specific(x), LoginVersion::Specific(y)) => x == y, (LoginVersion::Specific(_), LoginVersion::All) => false }
}
pub proof fn lemma_login_overlaps_is_set_intersection(a: LoginVersion, b: LoginVersion)
    ensures l_overlaps_closed(a, b) == (exists|e: u8| lden(a, e) && lden(b, e)),
{
    if l_overlaps_closed(a, b) {
        let w: u8 = match a { LoginVersion::Specific(x) => x, LoginVersion::All => match b { LoginVersion::Specific(y) => y, LoginVersion::All => 0u8 } };
        assert(lden(a, w) && lden(b, w));
    }
}
pub proof fn lemma_login_covers_is_set_inclusion(a: LoginVersion, b: LoginVersion)
    ensures l_covers_closed(a, b) == (forall|e: u8| lden(b, e) ==> lden(a, e)),
{
    if !l_covers_closed(a, b) {
        match a {
            LoginVersion::Specific(x) => {
                let w: u8 = match b { LoginVersion::Specific(y) => y, LoginVersion::All => if x == 255u8 { 0u8 } else { (x + 1) as u8 } };
                assert(lden(b, w) && !lden(a, w));
            }
            LoginVersion::All => { }
        }
    }
}

// vacuity canary: must be refuted
pub proof fn canary_c16(a: WorldVersion, b: WorldVersion)
    ensures overlaps_closed(a, b) == set_covers(a, b),
{ }
"""


def contract(fn_text, ret, ens):
    i = fn_text.index("-> bool {")
    return fn_text[:i] + "-> (%s: bool)\n        ensures %s\n    {" % (ret, ens) + fn_text[i + len("-> bool {"):]


def build_file(repo_root):
    src = vlib.read(os.path.join(repo_root, SRC))
    _, _, en = vlib.extract_item(src, r"^pub enum WorldVersion ", "enum WorldVersion")
    _, _, ov = vlib.extract_item(src, r"^    pub fn overlaps\(&self, other: &Self\) -> bool ", "WorldVersion::overlaps")
    _, _, cv = vlib.extract_item(src, r"^    pub fn covers\(&self, other: &Self\) -> bool ", "WorldVersion::covers")
    _, _, len_ = vlib.extract_item(src, r"^pub enum LoginVersion ", "enum LoginVersion")
    _, _, lov = vlib.extract_item(src, r"^    pub\(crate\) fn overlaps\(&self, other: &Self\) -> bool ", "LoginVersion::overlaps")
    _, _, lfu = vlib.extract_item(src, r"^    pub\(crate\) fn fullfills\(&self, other: &Self\) -> bool ", "LoginVersion::fullfills")
    text = """// generated each run by props/c16.py: items cut verbatim from %s (brace matching); dropped: every other item of
// the file, doc comments outside the items, #[derive] lists (replaced by Copy, Clone + structural equality); added: the
// `ensures` clause between signature and body. No proof text is placed inside the extracted bodies.
use vstd::prelude::*;
verus! {
#[derive(Copy, Clone, PartialEq, Eq, Structural)]
%s

#[derive(Copy, Clone, PartialEq, Eq, Structural)]
%s
%s
impl WorldVersion {
%s

%s
}

impl LoginVersion {
%s

%s
}
} // verus!
fn main() {}
""" % (SRC, en, len_, SPEC,
       contract(ov, "r", "r == overlaps_closed(*self, *other),"),
       contract(cv, "r", "r == covers_closed(*self, *other),"),
       contract(lov, "r", "r == l_overlaps_closed(*self, *other),"),
       contract(lfu, "r", "r == l_covers_closed(*self, *other),"))
    return text


FNS = {
    "overlaps": dict(obligation="C16:overlaps-iff-version-sets-intersect", functions=["WorldVersion::overlaps", "LoginVersion::overlaps"]),
    "covers": dict(obligation="C16:covers-iff-version-set-included", functions=["WorldVersion::covers"]),
    "fullfills": dict(obligation="C16:login-fullfills-iff-version-set-included", functions=["LoginVersion::fullfills"]),
    "lemma_overlaps_is_set_intersection": dict(obligation="C16:closed-form-overlap-equals-set-intersection"),
    "lemma_covers_is_set_inclusion": dict(obligation="C16:closed-form-cover-equals-set-inclusion"),
    "lemma_overlaps_symmetric": dict(obligation="C16:overlaps-symmetric"),
    "lemma_covers_reflexive_transitive": dict(obligation="C16:covers-preorder"),
    "lemma_covers_implies_overlaps": dict(obligation="C16:covers-implies-overlaps"),
    "lemma_login_overlaps_is_set_intersection": dict(obligation="C16:login-overlap-equals-set-intersection"),
    "lemma_login_covers_is_set_inclusion": dict(obligation="C16:login-cover-equals-set-inclusion"),
    "canary_c16": dict(canary=True),
}


TWIN = r"""
// Kani twin of the Verus contract: the same verbatim-extracted functions against executable closed forms; used only to
// obtain a concrete failing pair of versions when Verus refutes an obligation (Verus gives no counterexample).
#![allow(unused, non_snake_case)]
#[derive(Debug, Copy, Clone, PartialEq, Eq)]
%(en)s

#[derive(Debug, Copy, Clone, PartialEq, Eq)]
%(len)s

impl WorldVersion {
%(ov)s

%(cv)s
}
impl LoginVersion {
%(lov)s

%(lfu)s
}
fn level(v: WorldVersion) -> u8 { match v { WorldVersion::All => 0, WorldVersion::Major(_) => 1, WorldVersion::Minor(_, _) => 2, WorldVersion::Patch(_, _, _) => 3, WorldVersion::Exact(_, _, _, _) => 4 } }
fn comp(v: WorldVersion, k: u8) -> u32 {
    match v {
        WorldVersion::All => 0,
        WorldVersion::Major(m) => if k == 0 { m as u32 } else { 0 },
        WorldVersion::Minor(m, i) => if k == 0 { m as u32 } else if k == 1 { i as u32 } else { 0 },
        WorldVersion::Patch(m, i, p) => if k == 0 { m as u32 } else if k == 1 { i as u32 } else if k == 2 { p as u32 } else { 0 },
        WorldVersion::Exact(m, i, p, b) => if k == 0 { m as u32 } else if k == 1 { i as u32 } else if k == 2 { p as u32 } else { b as u32 },
    }
}
fn agree(a: WorldVersion, b: WorldVersion, n: u8) -> bool {
    (n < 1 || comp(a, 0) == comp(b, 0)) && (n < 2 || comp(a, 1) == comp(b, 1)) && (n < 3 || comp(a, 2) == comp(b, 2)) && (n < 4 || comp(a, 3) == comp(b, 3))
}
#[cfg(kani)]
fn any_world() -> WorldVersion {
    let t: u8 = kani::any();
    match t %% 5 { 0 => WorldVersion::All, 1 => WorldVersion::Major(kani::any()), 2 => WorldVersion::Minor(kani::any(), kani::any()),
        3 => WorldVersion::Patch(kani::any(), kani::any(), kani::any()), _ => WorldVersion::Exact(kani::any(), kani::any(), kani::any(), kani::any()) }
}
#[cfg(kani)]
fn any_login() -> LoginVersion { if kani::any() { LoginVersion::All } else { LoginVersion::Specific(kani::any()) } }
#[cfg(kani)]
#[kani::proof]
#[kani::unwind(1)]
fn twin_overlaps() {
    let (a, b) = (any_world(), any_world());
    let n = if level(a) < level(b) { level(a) } else { level(b) };
    assert!(a.overlaps(&b) == agree(a, b, n), "C16:overlaps-iff-version-sets-intersect");
}
#[cfg(kani)]
#[kani::proof]
#[kani::unwind(1)]
fn twin_covers() {
    let (a, b) = (any_world(), any_world());
    assert!(a.covers(&b) == (level(a) <= level(b) && agree(a, b, level(a))), "C16:covers-iff-version-set-included");
}
#[cfg(kani)]
#[kani::proof]
#[kani::unwind(1)]
fn twin_login() {
    let (a, b) = (any_login(), any_login());
    let ov = match (a, b) { (LoginVersion::Specific(x), LoginVersion::Specific(y)) => x == y, _ => true };
    let cv = match (a, b) { (LoginVersion::All, _) => true, (LoginVersion::Specific(x), LoginVersion::Specific(y)) => x == y, _ => false };
    assert!(a.overlaps(&b) == ov, "C16:overlaps-iff-version-sets-intersect");
    assert!(a.fullfills(&b) == cv, "C16:login-fullfills-iff-version-set-included");
}
"""


def twin_counterexample(scratch):
    """returns text with the concrete failing values found by the Kani twin (or '')"""
    src = vlib.read(os.path.join(vlib.REPO, SRC))
    parts = dict(
        en=vlib.extract_item(src, r"^pub enum WorldVersion ", "enum")[2],
        ov=vlib.extract_item(src, r"^    pub fn overlaps\(&self, other: &Self\) -> bool ", "overlaps")[2],
        cv=vlib.extract_item(src, r"^    pub fn covers\(&self, other: &Self\) -> bool ", "covers")[2],
        len=vlib.extract_item(src, r"^pub enum LoginVersion ", "enum")[2],
        lov=vlib.extract_item(src, r"^    pub\(crate\) fn overlaps\(&self, other: &Self\) -> bool ", "loverlaps")[2],
        lfu=vlib.extract_item(src, r"^    pub\(crate\) fn fullfills\(&self, other: &Self\) -> bool ", "fullfills")[2])
    d = os.path.join(scratch, "repo", "verif_c16_twin")
    os.makedirs(os.path.join(d, "src"), exist_ok=True)
    vlib.write(os.path.join(d, "Cargo.toml"), '[package]\nname = "verif_c16_twin"\nversion = "0.0.0"\nedition = "2021"\n[workspace]\n')
    vlib.write(os.path.join(d, "src/lib.rs"), TWIN % parts)
    res, meta = vlib.kani_run(scratch, "verif_c16_twin", ["twin_overlaps", "twin_covers", "twin_login"], jobs=1, harness_timeout=300, playback=True)
    out = []
    for h, chk, test in vlib.extract_playback_tests(meta["out"]):
        if "cover" in test.split("Check for")[1][:10]:
            continue
        out.append("harness %s, failed check %s:\n%s" % (h, chk, test))
    return "\n".join(out)


def check(tier, seed):
    run = vlib.Run(PROP, tier, seed)
    scratch = vlib.make_scratch(with_repo=False)
    try:
        text = build_file(vlib.REPO)
        path = os.path.join(scratch, "c16_versions.rs")
        vlib.write(path, text)
        vlib.write(os.path.join(vlib.VERIF, "logs", "c16_versions.rs"), text)
        vr = vlib.verus_run(path)
        run.absorb_verus(vr, path, FNS, text)
        run.trusted += ["Verus 0.2026.09.13 / Z3", "the set semantics `den` of a version pattern (versioning-with-tags.md: a pattern names every build it prefixes)"]
        run.assumptions += ["#[derive(Debug, Eq, PartialEq, Ord, PartialOrd)] of the two enums is replaced by Verus' structural equality (needed for `self == other` in fullfills)",
                            "only the version kernel is decided: the mapping rule -> process exit status (error_printer, conversion/*.rs, parsed_tags.rs) is outside any contract",
                            "AllVersions::has_version_intersections / fulfills_all (set level, BTreeSet iteration) are not under contract"]
        run.injections = ["verbatim extraction from %s: enum WorldVersion, WorldVersion::overlaps, WorldVersion::covers, enum LoginVersion, "
                          "LoginVersion::overlaps, LoginVersion::fullfills" % SRC]
        run.samples = ["WorldVersion::overlaps: ensures r == overlaps_closed(self, other); lemma: overlaps_closed <=> exists build e. den(a,e) && den(b,e)",
                       "WorldVersion::covers: ensures r == covers_closed(self, other); lemma: covers_closed <=> forall e. den(b,e) ==> den(a,e)"]
        # overlaps appears twice (WorldVersion / LoginVersion): the JSON verdict is per name and conjunctive
        def hook(refuted):
            import json
            try:
                cex = twin_counterexample(scratch)
            except Exception as e:
                cex = ""
                vlib.log("[c16 twin] %r" % (e,))
            for r in refuted:
                path = os.path.join(vlib.VERIF, "replays", PROP, vlib.slug(r["contract"] + "__" + r["obligation"]) + ".json")
                vlib.write(path, json.dumps(dict(property=PROP, obligation=r["obligation"], contract=r["contract"], engine="verus",
                                                 verifier_output=r.get("detail", ""), failing_input=cex or None,
                                                 note="failing_input comes from the Kani twin (same extracted functions, executable closed forms): "
                                                      "byte values of the symbolic version tags/components in the generated playback test"), indent=1))
                r["replay"] = path
                r["has_input"] = bool(cex)
        os.makedirs(os.path.join(scratch, "repo"), exist_ok=True)
        return run.finish(hook)
    finally:
        vlib.drop_scratch(scratch)


def replay(path):
    import json
    j = json.load(open(path))
    print("replay: obligation %s is a Verus obligation without counterexample; verifier output:\n%s" % (j.get("obligation"), j.get("verifier_output")))
    rc = check("quick", 0)
    return rc
