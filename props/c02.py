"""C02 — framing is exact: header size/opcode match bytes written; streams stay aligned."""
import os
from lib import vlib

PROP = "C02"
FEATURES = ["sync", "vanilla", "tbc", "wrath"]
P = "verif_kani::c02_framing::"
VERS = ["vanilla", "tbc", "wrath"]
DIRS = ["server", "client"]


def framing_batch(prop):
    mods = {
        "framing_spec": vlib.read(os.path.join(vlib.VERIF, "contracts/kani/framing_spec.rs")),
        "c02_framing": vlib.read(os.path.join(vlib.VERIF, "contracts/kani/c02_framing.rs")),
    }
    specs = {}
    for v in VERS:
        for d in DIRS:
            hw = "crate::util::%s_get_unencrypted_%s" % (v, d)
            sz = "%s::%sMessage::%s_size" % (v, d.capitalize(), d)
            specs[P + "c02_header_%s_%s" % (v, d)] = dict(kind="complete", functions=[hw, sz], default_prop="C02")
            if not (v == "wrath" and d == "server"):
                specs[P + "c02_header_%s_%s_edge" % (v, d)] = dict(kind="complete", functions=[hw, sz], default_prop="C02")
            specs[P + "c02_writer_%s_%s" % (v, d)] = dict(
                kind="bounded", bound="body length 0..=8 (each concrete), symbolic contents",
                functions=["%s::%sMessage::write_unencrypted_%s" % (v, d.capitalize(), d)], default_prop="C02")
            specs[P + "c02_reader_%s_%s" % (v, d)] = dict(
                kind="complete", functions=["%s::opcodes::%sOpcodeMessage::read_unencrypted" % (v, "Client" if d == "client" else "Server")],
                default_prop="C02")
            specs[P + "c02_expect_%s_%s" % (v, d)] = dict(
                kind="complete", functions=["%s::expect_%s_message" % (v, d), "helper::%s::expected::read_%s_body" % (v, d),
                                            "util::ServerHeader::from_array" if d == "server" else "util::ClientHeader::from_array"]
                + (["util::ServerHeader::from_large_array"] if (v, d) == ("wrath", "server") else []),
                default_prop="C02")
    specs[P + "c02_canary"] = dict(canary=True)
    return vlib.Batch("wow_world_messages", FEATURES, mods, specs, stubbing=True, jobs=12, harness_timeout=900)


def batches(scratch, tier="quick", seed=0):
    """framing contracts + the per-container clause `size_without_header() == bytes written` (C02a) on the container
    contracts (quick: changed files + a small seeded sample), in ONE cargo-kani invocation (same crate, one compile)."""
    from props import containers_common as cc
    fb = framing_batch(PROP)
    cbs, meta = cc.build(tier, seed, PROP, with_primitives=False, sample=12)
    cb = cbs[0]
    mods = dict(cb.modules)
    mods.update(fb.modules)
    specs = dict(fb.specs)
    for k, v in cb.specs.items():
        if not v.get("canary"):
            specs[k] = v
    b = vlib.Batch("wow_world_messages", FEATURES, mods, specs, stubbing=True, jobs=8, harness_timeout=900, pre_inject=cc.pre_inject)
    b.meta = meta
    return [b]


def check(tier, seed):
    run = vlib.Run(PROP, tier, seed)
    scratch = vlib.make_scratch()
    try:
        bs = batches(scratch, tier, seed)
        vlib.run_batches(run, scratch, bs)
        run.extra["containers"] = {k: v for k, v in bs[0].meta.items() if k != "not_loop_free_examples"}
        from props import c02_lemma
        c02_lemma.run(run, scratch)
        run.trusted += ["Kani 0.68 MIR->goto translation and CBMC 6.11 / CaDiCaL are sound",
                        "Verus 0.2026.09.13 / Z3 are sound",
                        "framing specification in contracts/kani/framing_spec.rs (from the property text and implementing_world.md)",
                        "std Vec / io::Write for Vec / vec![0; n] as compiled by Kani"]
        run.assumptions += [
            "read_opcodes (the per-opcode dispatcher) is replaced by a stub that returns its arguments (#[kani::stub]); its own behaviour is C01/C04",
            "reader contracts assume the announced size field >= opcode length (smaller fields are a C03 matter)",
            "default-writer glue executed for body lengths 0..=8 only (bounded stand-in); for longer bodies abort-freedom follows from the "
            "header contracts over the full range plus the per-container size clause of C01",
            "overridden writers of compressed messages (zlib) are not under contract",
            "tokio/async-std copies of the readers/writers are not under contract (C06 not applicable)",
        ]
        run.samples = ["c02_header_wrath_server: forall n<=0x7FFFFD, opcode. server_size()==hdr_len(n)+n and bytes == spec_header (2/3-byte switch at field>0x7FFF)",
                       "c02_reader_wrath_server: forall 6 header bytes with field>=2. bytes consumed == header_len + (field-2); dispatcher gets (opcode, field-2, buffer of that length)",
                       "c02_expect_vanilla_client: forall 6 header bytes. expect_client_message::<Dummy> consumes header+body and returns Ok iff opcode matches"]
        return run.finish(vlib.make_kani_replay_hook(run, scratch, bs))
    finally:
        vlib.drop_scratch(scratch)


def replay(path):
    return vlib.replay_kani(PROP, path, lambda s: batches(s, "thorough", 0))
