"""C12 — generated flag types obey set algebra over exactly their declared bits."""
from lib import vlib
from props import c11

PROP = "C12"


def batches_for_replay(scratch):
    return c11.build("thorough", 0, prop=PROP, kind="flag")[0]


def check(tier, seed):
    run = vlib.Run(PROP, tier, seed)
    scratch = vlib.make_scratch()
    try:
        bs, meta = c11.build(tier, seed, prop=PROP, kind="flag")
        vlib.run_batches(run, scratch, bs)
        run.extra["selection"] = dict(flags_in_tree=meta["total"], checked_this_run=meta["selected"], changed_vs_baseline=meta["changed"],
                                      rule="quick: every flag whose generated file or .wowm file differs from baseline_hashes.json + VERIF_SEED sample; thorough: all")
        run.trusted += ["Kani 0.68 / CBMC 6.11 / CaDiCaL", "the independent wowm reader spec/wowm.py (constants, base type, zero_is_always_valid tag)"]
        run.assumptions += ["method names are linked to wowm enumerator names by lower-casing",
                            "formatting traits (UpperHex, ...), print-testcase helpers are not under contract",
                            "flag structs synthesised for conditional members (wow_world_messages) are covered by the c12_synth contracts where generated"]
        run.samples = [c["name"] for c in run.contracts[:8]]
        return run.finish(vlib.make_kani_replay_hook(run, scratch, bs))
    finally:
        vlib.drop_scratch(scratch)


def replay(path):
    return vlib.replay_kani(PROP, path, batches_for_replay)
