"""C09 — computed minimum/maximum sizes bound every valid encoding.
(a) Verus: one interval obligation per generated world message, over the wowm length formula, against the guard literals
    compiled into its decoder (unbounded in array counts and string lengths).
(c) Kani: clause `C09:canonical-encoding-rejected-by-size-guard` of the per-container contracts (loop-free messages)."""
import os
import re
from lib import vlib
from spec import wowm
from gen import containers, lengths
from props import containers_common as cc

PROP = "C09"

PRELUDE = """// generated each run by props/c09.py + gen/lengths.py
use vstd::prelude::*;
verus! {
// The only non-local fact the per-container obligations rely on: a sequence of `c` element lengths, each within
// [lo, hi], sums to a total within [c*lo, c*hi] (used as `c*lo <= total <= c*hi` in their preconditions).
pub open spec fn sum(s: Seq<int>) -> int
    decreases s.len()
{
    if s.len() == 0 { 0 } else { s[0] + sum(s.drop_first()) }
}
pub proof fn lemma_sum_bounds(s: Seq<int>, lo: int, hi: int)
    requires forall|i: int| 0 <= i < s.len() ==> lo <= #[trigger] s[i] <= hi,
    ensures s.len() * lo <= sum(s) <= s.len() * hi,
    decreases s.len()
{
    if s.len() > 0 {
        let t = s.drop_first();
        assert forall|i: int| 0 <= i < t.len() implies lo <= #[trigger] t[i] <= hi by { assert(t[i] == s[i + 1]); }
        lemma_sum_bounds(t, lo, hi);
        assert(s.len() * lo == t.len() * lo + lo) by(nonlinear_arith) requires s.len() == t.len() + 1;
        assert(s.len() * hi == t.len() * hi + hi) by(nonlinear_arith) requires s.len() == t.len() + 1;
    }
}
"""


def build_verus(repo):
    corpus = wowm.Corpus(repo)
    items = containers.scan_messages(repo)
    consts = lengths.read_language_constants(vlib.read(os.path.join(repo, "wow_message_parser/src/main.rs")))
    cbuf = lengths.client_buffer_limit(vlib.read(os.path.join(repo, "wow_message_parser/src/rust_printer/structs/print_common_impls/mod.rs")))
    consts["CLIENT_MESSAGE_BUFFER"] = cbuf
    out = [PRELUDE]
    specs = {}
    skipped = {}
    struct_iv_by_ver = {}
    n = 0
    for it in items:
        ver = it["versions"][0]
        d = corpus.by_loc.get((it["wowm_file"], it["wowm_line"]))
        if d is None or d["obj"] != "container":
            continue
        name = re.sub(r"[^a-z0-9_]", "_", it["modpath"].replace("crate::world::", "").replace("::", "_").lower())
        try:
            if any(t == "compressed" for t, _ in d["tags"]):
                raise lengths.Skip("compressed message")
            guard = lengths.guard_of(it["src"])
            if guard is None:
                raise vlib.AnchorLost("size guard of %s not found in %s" % (it["rust_name"], it["rel"]))
            res = containers.Resolver(corpus, ver)
            siv = struct_iv_by_ver.setdefault(ver, {})
            dirs = {"cmsg": ["c"], "smsg": ["s"], "msg": ["c", "s"]}[d["kind"]]
            frame = max(min(lengths.FRAME[(v, dd)], cbuf) if (dd == "c" and d["kind"] == "cmsg") else lengths.FRAME[(v, dd)]
                        for v in it["versions"] for dd in dirs)
            code, iv = lengths.obligation(it, d, res, consts, siv, guard, frame, name)
        except (lengths.Skip, containers.Unsupported) as e:
            skipped.setdefault(re.sub(r"\d+", "N", str(e)), []).append(it["rust_name"])
            continue
        out.append(code)
        specs["c09_" + name] = dict(obligation="C09:size-guard-bounds-every-encoding", functions=[it["modpath"] + "::" + it["rust_name"] + "::read_inner (size guard)"])
        n += 1
    # struct intervals used as callee contracts
    for ver, siv in struct_iv_by_ver.items():
        res = containers.Resolver(corpus, ver)
        for key, (a, b, o) in list(siv.items()):
            g = lengths.LenGen(res, consts, siv)
            e, lo, hi = g.members(o["members"], {})
            nm = "struct_%s_%s_%d" % (ver, o["name"].lower(), o["line"])
            params = ", ".join("%s: %s" % p for p in g.params) or "unit: int"
            args = ", ".join(p for p, _ in g.params) or "0"
            out.append("pub open spec fn len_%s(%s) -> int {\n    %s\n}" % (nm, params, e))
            req = ",\n        ".join(g.req) if g.req else "true"
            out.append("pub proof fn c09_%s(%s)\n    requires\n        %s,\n    ensures\n        %d <= len_%s(%s) <= %d,\n{\n}\n" % (nm, params, req, a, nm, args, b))
            specs["c09_" + nm] = dict(obligation="C09:struct-interval-used-by-array-obligations", functions=["(wowm struct %s)" % o["name"]])
    out.append("pub proof fn canary_c09(a: int, b: int)\n    requires 0 <= a <= 5, 0 <= b <= 9,\n    ensures a + b <= 13,\n{\n}\n")
    specs["lemma_sum_bounds"] = dict(obligation="C09:sum-of-bounded-element-lengths")
    specs["canary_c09"] = dict(canary=True)
    out.append("} // verus!\nfn main() {}\n")
    return "\n".join(out), specs, dict(obligations=n, skipped={k: len(v) for k, v in skipped.items()},
                                       skipped_examples={k: v[:4] for k, v in skipped.items()}, language_constants=consts)


def verus_part(run, scratch):
    text, specs, meta = build_verus(vlib.REPO)
    path = os.path.join(scratch, "c09_sizes.rs")
    vlib.write(path, text)
    vlib.write(os.path.join(vlib.VERIF, "logs", "c09_sizes.rs"), text)
    vr = vlib.verus_run(path, timeout=1800, extra=["--num-threads", "8"])
    run.absorb_verus(vr, path, specs, text)
    run.extra["interval_obligations"] = meta
    run.assumptions += ["string wire sizes are limited by the published language constants read from wow_message_parser/src/main.rs this run: %r" % meta["language_constants"],
                        "array counts range over the full range of their length-field type; messages longer than the frame limit of their direction/expansion are not encodings",
                        "messages containing UpdateMask, MonsterMoveSplines, masks, achievement arrays, AddonArray or compressed parts have no interval obligation (listed under interval_obligations.skipped)"]


def check(tier, seed):
    return cc.run_check(PROP, tier, seed, post=verus_part)


def replay(path):
    import json
    j = json.load(open(path))
    if j.get("engine") == "verus":
        print("replay: Verus obligation %s (contract %s); verifier output:\n%s" % (j.get("obligation"), j.get("contract"), j.get("verifier_output")))
        print("VIOLATION property=%s replay=%s no-failing-input-found" % (PROP, path))
        return 1
    return cc.replay(PROP, path)
