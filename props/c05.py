"""C05 — header encryption is transparent for whole message sequences."""
import os
import shutil
from lib import vlib, srp

PROP = "C05"
FEATURES = ["sync", "vanilla", "tbc", "wrath"]
P = "verif_kani::c05_crypto::"
VERS = ["vanilla", "tbc", "wrath"]
DIRS = ["server", "client"]


def batches(scratch, tier="thorough"):
    mods = {
        "framing_spec": vlib.read(os.path.join(vlib.VERIF, "contracts/kani/framing_spec.rs")),
        "c02_framing": vlib.read(os.path.join(vlib.VERIF, "contracts/kani/c02_framing.rs")),
        "c05_crypto": vlib.read(os.path.join(vlib.VERIF, "contracts/kani/c05_crypto.rs")),
    }
    specs = {}
    for v in VERS:
        cipher = {"vanilla": ["wow_srp::vanilla_header::encrypt::encrypt", "wow_srp::vanilla_header::decrypt::decrypt"],
                  "tbc": ["wow_srp::tbc_header::encrypt::encrypt", "wow_srp::tbc_header::decrypt::decrypt"],
                  "wrath": ["wow_srp::wrath_header::inner_crypto::rc4::Rc4::apply_keystream",
                            "wow_srp::wrath_header::ClientDecrypterHalf::attempt_decrypt_server_header",
                            "wow_srp::wrath_header::ClientDecrypterHalf::decrypt_large_server_header",
                            "wow_srp::wrath_header::ServerEncrypterHalf::encrypt_server_header"]}[v]
        for d in DIRS:
            D = d.capitalize()
            specs[P + "c05_header_%s_%s" % (v, d)] = dict(
                kind="complete", default_prop=PROP,
                functions=["crate::util::%s_get_encrypted_%s" % (v, d), "%s::%sMessage::%s_size" % (v, D, d)] + cipher)
            specs[P + "c05_writer_%s_%s" % (v, d)] = dict(
                kind="bounded", bound="body length in {0,1,2,5,8} (each concrete), symbolic contents and cipher state", default_prop=PROP,
                functions=["%s::%sMessage::write_encrypted_%s" % (v, D, d)])
            specs[P + "c05_reader_%s_%s" % (v, d)] = dict(
                kind="complete", default_prop=PROP,
                functions=["%s::opcodes::%sOpcodeMessage::read_encrypted" % (v, D)] + cipher)
            specs[P + "c05_expect_%s_%s" % (v, d)] = dict(
                kind="complete", default_prop=PROP,
                functions=["%s::expect_%s_message_encryption" % (v, d)] + cipher)
    rc4 = ["wow_srp::wrath_header::inner_crypto::rc4::Rc4::apply_keystream", "wow_srp::wrath_header::inner_crypto::rc4::Rc4::pseudo_random_generation",
           "wow_srp::wrath_header::inner_crypto::InnerCrypto::apply"]
    if tier == "thorough":
        # contract of the *dependency* wow_srp (not part of /repo): discharged in the thorough tier (about 35 min of CBMC on
        # a fully symbolic S-box); the quick tier uses it as an assumed contract
        specs[P + "c05_rc4_mask_and_state_depend_on_state_and_length_only"] = dict(kind="complete", default_prop=PROP, functions=rc4)
        specs[P + "c05_rc4_split_calls_compose"] = dict(kind="complete", default_prop=PROP, functions=rc4)
    specs[P + "c05_canary"] = dict(canary=True)
    return [vlib.Batch("wow_world_messages", FEATURES, mods, specs, stubbing=True, jobs=12, harness_timeout=3600 if tier == "thorough" else 600,
                       pre_inject=srp.patch)]


def lemma(run, scratch):
    dst = os.path.join(scratch, "c05_lockstep.rs")
    shutil.copy(os.path.join(vlib.VERIF, "contracts/verus/c05_lockstep.rs"), dst)
    vr = vlib.verus_run(dst)
    run.absorb_verus(vr, dst, {
        "lemma_lockstep": dict(obligation="C05:sequence-lockstep", functions=["(lemma over the per-message contracts)"]),
        "canary_c05_lockstep": dict(canary=True),
    }, vlib.read(dst))


def check(tier, seed):
    run = vlib.Run(PROP, tier, seed)
    scratch = vlib.make_scratch()
    try:
        bs = batches(scratch, tier)
        vlib.run_batches(run, scratch, bs)
        lemma(run, scratch)
        if tier == "quick":
            run.assumptions.append("quick tier: the RC4 keystream contract of the dependency wow_srp (mask and next state depend on state and length only; "
                                   "split calls compose) is assumed; it is discharged on the real RC4 with a symbolic S-box in the thorough tier")
        run.trusted += ["Kani 0.68 / CBMC 6.11 / CaDiCaL; Verus 0.2026.09.13 / Z3",
                        "framing specification in contracts/kani/framing_spec.rs",
                        "wow_srp 0.7.0 key derivation (HMAC-SHA1, RC4 key schedule, drop-1024) is NOT executed: cipher halves start in an arbitrary "
                        "state (any key/S-box/position) assumed equal on both peers; the cipher code itself (encrypt/decrypt/RC4 keystream, "
                        "header (de)serialisation) is the real wow_srp source and is inside the proof"]
        run.assumptions += [
            "wow_srp is compiled from its registry source with #[cfg(kani)] constructors/state accessors appended (listed under injection_points)",
            "read_opcodes (per-opcode dispatcher) is stubbed; its behaviour is C01/C04",
            "reader contracts assume announced size field >= opcode length",
            "encrypted default-writer glue executed for body lengths {0,1,2,5,8} only (bounded stand-in)",
            "overridden encrypted writers of compressed messages (zlib) are not under contract",
            "tokio/async-std copies are not under contract",
        ]
        run.samples = ["c05_header_wrath_server: forall RC4 state, n<=0x7FFFFD, opcode. Dec(bytes written)==spec_header and |bytes|==4|5 and enc.state==dec.state",
                       "c05_reader_wrath_server: forall RC4 state, plain header. read_encrypted(Enc(header)++body) consumes header+body, passes (opcode,len) on, states equal",
                       "lemma_lockstep: per-message contract ==> forall sequences: decoded sequence equal, final cipher states equal"]
        return run.finish(vlib.make_kani_replay_hook(run, scratch, bs))
    finally:
        vlib.drop_scratch(scratch)


def replay(path):
    return vlib.replay_kani(PROP, path, batches)
