"""C11 — generated enum types mirror their wowm definition for every integer."""
import os
import re
from lib import vlib, selection as select
from spec import wowm
from gen import definers

PROP = "C11"
KIND = "enum"
SAMPLE = 40
ARM_BUDGET_QUICK = 700
THOROUGH_MAX_ENUMERATORS = 1000


def hname(prefix, it):
    return prefix + "_" + re.sub(r"[^a-z0-9_]", "_", it["modpath"].replace("crate::", "").replace("::", "_").lower())


def build(tier, seed, prop=PROP, kind=KIND, gen=None):
    corpus = wowm.Corpus(vlib.REPO)
    units = definers.collect(vlib.REPO, corpus, kind)
    sel, n_changed = select.pick(units, lambda u: [u[2]["rel"], u[3]["file"]], tier, seed, SAMPLE)
    meta_big = []
    if tier == "thorough" and kind == "enum":
        # enums with more than THOROUGH_MAX_ENUMERATORS enumerators (the Area tables: 1,082-2,500) need > 35 min of symbolic
        # execution per source type (measured); they are checked whenever their files differ from the baseline, otherwise listed
        keep = []
        for u in sel:
            if len(u[3]["members"]) > THOROUGH_MAX_ENUMERATORS and not select.changed([u[2]["rel"], u[3]["file"]]):
                meta_big.append("%s (%d enumerators)" % (u[2]["rust_name"] + "@" + u[2]["rel"].split("/")[-2], len(u[3]["members"])))
            else:
                keep.append(u)
        sel = keep
    if tier == "quick":
        # keep the sampled (unchanged) part within an enumerator budget: symbolic execution costs ~0.7 s per enumerator
        keep, arms = [], 0
        for k, u in enumerate(sel):
            n = len(u[3]["members"])
            if k < n_changed or arms + n <= ARM_BUDGET_QUICK:
                keep.append(u)
                arms += n if k >= n_changed else 0
        sel = keep
    per_crate = {}
    meta = dict(total=len(units), selected=len(sel), changed=n_changed, missing_impls=[], excluded_for_resources=meta_big)
    for crate, feats, it, d in sel:
        per_crate.setdefault((crate, tuple(feats)), []).append((it, d))
    batches = []
    pfx = prop.lower()
    for (crate, feats), lst in sorted(per_crate.items()):
        body = ["// generated each run by gen/definers.py from the wowm corpus + anchors in the generated sources\n"]
        specs = {}
        for it, d in lst:
            hn = hname(pfx, it)
            if kind == "enum":
                hs, fns, missing = definers.gen_enum_harness(it, d, hn)
                if missing:
                    meta["missing_impls"].append("%s: no TryFrom<%s>" % (it["rust_name"], ",".join(missing)))
            else:
                code, fns = definers.gen_flag_harness(it, d, hn)
                hs = [(hn, code)]
            for name, code in hs:
                body.append(code)
                specs["verif_kani::%s_definers::%s" % (pfx, name)] = dict(kind="complete", functions=fns, default_prop=prop)
        # canary
        body.append("#[kani::proof]\n#[kani::unwind(1)]\nfn %s_canary() {\n    let x: u8 = kani::any();\n    assert!(x != 7, \"CANARY:%s\");\n}\n" % (pfx, pfx))
        specs["verif_kani::%s_definers::%s_canary" % (pfx, pfx)] = dict(canary=True)
        batches.append(vlib.Batch(crate, list(feats), {pfx + "_definers": "\n".join(body)}, specs, jobs=8, harness_timeout=(3600 if tier == "thorough" else 600)))
    return batches, meta


def batches_for_replay(scratch):
    return build("thorough", 0)[0]


def check(tier, seed):
    run = vlib.Run(PROP, tier, seed)
    scratch = vlib.make_scratch()
    try:
        bs, meta = build(tier, seed)
        vlib.run_batches(run, scratch, bs)
        for m in meta["missing_impls"]:
            run.undecided.append(dict(contract=m, reason="expected TryFrom impl not present in the generated source"))
        run.extra["selection"] = dict(enums_in_tree=meta["total"], checked_this_run=meta["selected"], changed_vs_baseline=meta["changed"],
                                      excluded_for_resources=meta.get("excluded_for_resources", []),
                                      rule="quick: every enum whose generated file or .wowm file differs from baseline_hashes.json + VERIF_SEED sample of %d; thorough: all" % SAMPLE)
        run.trusted += ["Kani 0.68 / CBMC 6.11 / CaDiCaL", "the independent wowm reader spec/wowm.py (tables of (name, value), base type)"]
        run.assumptions += ["Rust variant identifiers are linked to wowm enumerator names by case/underscore-insensitive comparison",
                            "Display / Default / print-testcase helpers are not under contract"]
        run.samples = [c["name"] for c in run.contracts[:8]]
        return run.finish(vlib.make_kani_replay_hook(run, scratch, bs))
    finally:
        vlib.drop_scratch(scratch)


def replay(path):
    return vlib.replay_kani(PROP, path, batches_for_replay)
