"""C14 — login protocol-version views of a message are lossless and codec-equivalent."""
import os
from lib import vlib

PROP = "C14"
FEATURES = ["sync"]
# family -> (buffer bound N, kind, note).  complete = the whole message fits below N for every value (fixed layout);
# bounded = the message has strings / vectors whose lengths are limited by the buffer bound
FAMILIES = {
    "logon_challenge_client": (40, "bounded", "account name length limited by the 40-byte buffer"),
    "logon_challenge_server": (150, "bounded", "generator / large-safe-prime vectors limited by the 150-byte buffer"),
    "logon_proof_client": (120, "bounded", "telemetry-key count limited by the 120-byte buffer"),
    "logon_proof_server": (34, "complete", None),
    "reconnect_challenge_client": (40, "bounded", "account name length limited by the 40-byte buffer"),
    "reconnect_challenge_server": (36, "complete", None),
    "reconnect_proof_client": (60, "complete", None),
    "reconnect_proof_server": (8, "complete", None),
    "realm_list_client": (8, "complete", None),
    "realm_list_server": (40, "bounded", "realm count / name lengths limited by the 40-byte buffer"),
    "xfer_accept": (4, "complete", None),
    "xfer_cancel": (4, "complete", None),
    "xfer_data": (12, "bounded", "data length limited by the 12-byte buffer"),
    "xfer_initiate": (40, "bounded", "filename length limited by the 40-byte buffer"),
    "xfer_resume": (12, "complete", None),
}
QUICK = ["reconnect_proof_server", "reconnect_proof_client", "realm_list_client", "xfer_accept", "xfer_cancel", "xfer_resume"]


def batches(scratch, tier="thorough"):
    mods = {"c14_collective": vlib.read(os.path.join(vlib.VERIF, "contracts/kani/c14_collective.rs"))}
    specs = {}
    excluded = _excluded()
    for fam, (n, kind, note) in FAMILIES.items():
        if tier == "quick" and fam not in QUICK:
            continue
        for v in ("v2", "v3", "v5", "v6", "v7"):
            h = "verif_kani::c14_collective::%s::%s" % (fam, v)
            if h.split("::", 2)[2] in excluded:
                continue
            specs[h] = dict(kind=kind, bound=note, default_prop=PROP,
                            functions=["collective::%s::{from_version_%s, to_version_%s}" % (fam, v[1:], v[1:]),
                                       "CollectiveMessage::read_protocol", "CollectiveMessage::write_protocol"])
    for v in ("v2", "v3", "v5", "v6", "v7", "v2_write", "v3_write", "v5_write", "v6_write", "v7_write"):
        h = "verif_kani::c14_collective::logon_challenge_server_values::%s" % v
        if h.split("::", 2)[2] in excluded or (tier == "quick" and v.endswith("_write")):
            continue
        specs[h] = dict(kind="bounded", bound="value built field-wise; vector lengths concrete (generator 1 byte, large_safe_prime 2 bytes), all contents symbolic",
                        default_prop=PROP, functions=["collective::cmd_auth_logon_challenge_server::{from_version_%s, to_version_%s}" % (v[1:2], v[1:2]),
                                                      "CollectiveMessage::write_protocol"])
    specs["verif_kani::c14_collective::c14_canary"] = dict(canary=True)
    return [vlib.Batch("wow_login_messages", FEATURES, mods, specs, jobs=5, harness_timeout=(600 if tier == "thorough" else 420))]


def _excluded():
    import json
    p = os.path.join(vlib.VERIF, "c14_excluded.json")
    return set(json.load(open(p))) if os.path.exists(p) else set()


def check(tier, seed):
    run = vlib.Run(PROP, tier, seed)
    scratch = vlib.make_scratch()
    try:
        bs = batches(scratch, tier)
        vlib.run_batches(run, scratch, bs)
        # contract names: family::vN -> make them unique in the evidence
        run.trusted += ["Kani 0.68 / CBMC 6.11 / CaDiCaL", "derived PartialEq/Clone of the message types as compiled by Kani"]
        run.assumptions += ["the version-N value is obtained by decoding symbolic bytes with version N's own reader (values without an encoding inside the buffer bound are not exercised)",
                            "families with strings/vectors are bounded by the buffer size (reported as bounded, not as proved)",
                            "expect_*_message_protocol helpers and the tokio/async-std variants are not under contract",
                            "excluded for resources - bytes-side contracts that gave no verdict within 420-2400 s on the unchanged tree, or bounded families that were not measured: %s" % sorted(_excluded())]
        run.extra["families"] = {k: dict(buffer=v[0], kind=v[1]) for k, v in FAMILIES.items()}
        run.samples = ["family::vN: forall bytes b. Vn::read(b)=Ok(x) ==> to_vN(from_vN(x))==x, write_protocol(from_vN(x),N) bytes == x.write() bytes, read_protocol(b,N) lowers to x and consumes the same"]
        return run.finish(vlib.make_kani_replay_hook(run, scratch, bs))
    finally:
        vlib.drop_scratch(scratch)


def replay(path):
    return vlib.replay_kani(PROP, path, batches)
