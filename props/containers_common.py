"""Shared driver of the per-container contracts (C01, C02a, C03, C04, C09c): one generated harness per loop-free world
message carries clauses of all five properties; each property's check runs the same harnesses and reports the clauses
(and, for C03, the built-in checks) that belong to it."""
import os
import re
from lib import vlib, selection
from spec import wowm
from gen import containers, shapes

FEATURES = ["sync", "vanilla", "tbc", "wrath"]
SAMPLE_QUICK = 24
QUICK_MAX_S = 30      # quick tier samples only contracts measured (container_costs.json) to verify within this time
ERR_ACCESSOR = """
#[cfg(kani)]
impl ParseError {
    /// scratch-only accessor for the contract harnesses (the field is private and has no public getter)
    pub(crate) fn verif_kind(&self) -> &ParseErrorKind {
        &self.kind
    }
}
"""


def pre_inject(scratch):
    p = os.path.join(scratch, "repo", "wow_world_messages/src/errors.rs")
    s = vlib.read(p)
    if "verif_kind" not in s:
        vlib.write(p, s.rstrip("\n") + "\n" + ERR_ACCESSOR)
    return ["wow_world_messages/src/errors.rs: appended #[cfg(kani)] impl ParseError { fn verif_kind(&self) -> &ParseErrorKind }"]


def stratum(u):
    g = u["gen"]
    if g is None:
        return "shaped"
    txt = "\n".join(g.lines)
    if "packed_guid" in txt:
        return "packed-guid"
    if " & " in txt:
        return "flag-if"
    if "enum_member" in txt and "if w.ok && (" in txt:
        return "enum-if"
    if u["lo"] == u["hi"]:
        return "const-size"
    return "other"


def load_costs():
    p = os.path.join(vlib.VERIF, "container_costs.json")
    import json
    return json.load(open(p)) if os.path.exists(p) else {}


def build(tier, seed, prop, only=None, with_primitives=True, sample=None):
    corpus = wowm.Corpus(vlib.REPO)
    items = containers.scan_messages(vlib.REPO)
    units = []
    skipped = {}
    for it in items:
        try:
            d, g, lo, hi = containers.plan(corpus, it, it["versions"][0])
        except containers.Unsupported as e:
            reason = re.sub(r"\d+", "N", str(e))
            skipped.setdefault(reason, []).append(it["rust_name"] + "@" + "/".join(it["versions"]))
            continue
        hn = "ct_" + re.sub(r"[^a-z0-9_]", "_", it["modpath"].replace("crate::world::", "").replace("::", "_").lower())
        units.append(dict(item=it, d=d, gen=g, lo=lo, hi=hi, hname=hn))
    # bounded "concrete shape" contracts for messages with strings / variable arrays (gen/shapes.py)
    shaped = []
    for it in items:
        d = corpus.by_loc.get((it["wowm_file"], it["wowm_line"]))
        if d is None or d["obj"] != "container":
            continue
        base = re.sub(r"[^a-z0-9_]", "_", it["modpath"].replace("crate::world::", "").replace("::", "_").lower())
        for sh in range(shapes.N_SHAPES):
            hn = "sh_%s_s%d" % (base, sh)
            try:
                code, n = shapes.harness(it, d, corpus, it["versions"][0], hn, sh)
            except containers.Unsupported:
                continue
            shaped.append(dict(item=it, d=d, hname=hn, code=code, shape=sh, size=n, lo=n, hi=n, gen=None))
    costs = load_costs()
    excluded = []
    cheap_units = []
    for u in units + shaped:
        c = costs.get(u["hname"])
        u["cost"] = c
        changed = selection.changed([u["item"]["rel"], u["d"]["file"]])
        if c is not None and c.get("status") not in ("success", "failed") and not changed:
            # measured to exceed the per-harness time/memory budget on the unchanged tree: not run, reported as not decided
            excluded.append(u["hname"])
            continue
        if c is None and not changed and os.environ.get("VERIF_INCLUDE_UNMEASURED") != "1":
            # never measured on the unchanged tree: not run (so that the unchanged tree cannot end undecided), listed
            excluded.append(u["hname"] + " (unmeasured)")
            continue
        if tier == "quick" and not changed and (c is None or c.get("time_s", 1e9) > QUICK_MAX_S):
            continue
        cheap_units.append(u)
    if only:
        cheap_units = [u for u in units + shaped if u["hname"] in only]
    sel, n_changed = selection.pick(cheap_units, lambda u: [u["item"]["rel"], u["d"]["file"]], tier, seed, sample or SAMPLE_QUICK, stratum=stratum)
    body = ["// generated each run by gen/containers.py / gen/shapes.py from the wowm corpus\nuse super::spec_rt::*;\n" + shapes.RT]
    specs = {}
    for u in sel:
        T = "%s::%s" % (u["item"]["modpath"], u["item"]["rust_name"])
        if u["gen"] is None:
            body.append(u["code"])
            specs["verif_kani::containers::" + u["hname"]] = dict(
                kind="bounded", bound="concrete shape %d of %d (branch choice, array counts / string lengths in {0,1,2}, concrete string content); %d bytes, all other bytes symbolic" % (u["shape"], shapes.N_SHAPES, u["size"]),
                default_prop="C03", functions=[T + "::read_body", T + "::read_inner", T + "::write_into_vec", T + "::size_without_header"])
            continue
        body.append(containers.harness(u["item"], u["d"], u["gen"], u["lo"], u["hi"], u["hname"]))
        specs["verif_kani::containers::" + u["hname"]] = dict(
            kind=("bounded" if u["gen"].loops else "complete"),
            bound=("frame of at most %d bytes; string content ASCII" % min(u["hi"] + 2, max(u["lo"] + 6, containers.BOUNDED_N)) if u["gen"].loops else None),
            default_prop="C03",
            functions=[T + "::read_body", T + "::read_inner", T + "::write_into_vec", T + "::size_without_header"])
    body.append("#[kani::proof]\n#[kani::unwind(2)]\nfn ct_canary() {\n    let b: [u8; 4] = kani::any();\n    let w = W::new(&b, 4);\n    assert!(!w.ok, \"CANARY:containers\");\n}\n")
    specs["verif_kani::containers::ct_canary"] = dict(canary=True)
    mods = {"spec_rt": vlib.read(os.path.join(vlib.VERIF, "contracts/kani/spec_rt.rs")), "containers": "\n".join(body)}
    if with_primitives:
        pspecs, pmods = primitives_batch()
        specs.update(pspecs)
        mods.update(pmods)
    batch = vlib.Batch("wow_world_messages", FEATURES, mods, specs, jobs=8, harness_timeout=900, pre_inject=pre_inject)
    meta = dict(messages_in_tree=len(items), loop_free=sum(1 for u in units if not u["gen"].loops),
                bounded_class=sum(1 for u in units if u["gen"].loops), shaped_contracts_generated=len(shaped),
                shaped_messages=len(set(u["item"]["rel"] for u in shaped)), checked_this_run=len(sel), changed_vs_baseline=n_changed,
                excluded_for_resources=excluded,
                not_loop_free={k: len(v) for k, v in sorted(skipped.items(), key=lambda kv: -len(kv[1]))},
                not_loop_free_examples={k: v[:3] for k, v in skipped.items()})
    return [batch], meta


PRIM = "verif_kani::c03_primitives::"
PRIM_SPECS = {
    "prim_read_bool_u8": (["util::read_bool_u8"], "complete", None),
    "prim_read_bool_u16": (["util::read_bool_u16"], "complete", None),
    "prim_read_bool_u32": (["util::read_bool_u32"], "complete", None),
    "prim_read_sized_c_string_total": (["util::read_sized_c_string_to_vec"], "bounded", "frame <= 4 bytes; announced size in 0..=6 or >= 0x7FFFF0"),
    "prim_packed_guid_write_then_read": (["util::write_packed_guid", "util::read_packed_guid", "util::packed_guid_size"], "complete", None),
    "prim_packed_guid_read_total_and_canonical_roundtrip": (["util::read_packed_guid", "util::write_packed_guid"], "complete", None),
    "prim_u16_u32_split_join": (["util::u16s_to_u32", "util::u32_to_u16s"], "complete", None),
    "prim_read_c_string_bounded": (["util::read_c_string_to_vec"], "bounded", "frame <= 6 bytes"),
    "prim_assert_empty": (["util::assert_empty"], "complete", None),
}


def primitives_batch(scratch=None):
    mods = {"spec_rt": vlib.read(os.path.join(vlib.VERIF, "contracts/kani/spec_rt.rs")),
            "c03_primitives": vlib.read(os.path.join(vlib.VERIF, "contracts/kani/c03_primitives.rs"))}
    specs = {}
    for h, (fns, kind, bound) in PRIM_SPECS.items():
        specs[PRIM + h] = dict(kind=kind, bound=bound, functions=["wow_world_messages::" + f for f in fns], default_prop="C03")
    specs[PRIM + "prim_canary"] = dict(canary=True)
    return specs, mods


def run_check(prop, tier, seed, extra_batches=None, post=None):
    run = vlib.Run(prop, tier, seed)
    scratch = vlib.make_scratch()
    try:
        bs, meta = build(tier, seed, prop)
        if extra_batches:
            bs = extra_batches(scratch) + bs
        vlib.run_batches(run, scratch, bs)
        if post:
            post(run, scratch)
        run.extra["containers"] = meta
        run.trusted += ["Kani 0.68 / CBMC 6.11 / CaDiCaL", "the independent wowm reader (spec/wowm.py) and the walker runtime contracts/kani/spec_rt.rs",
                        "std slice / io::Read for &[u8] / io::Write as compiled by Kani"]
        run.assumptions += [
            "per-container contracts are complete (all inputs) for the loop-free world messages (fixed-width scalars, enums/flags, Bool, Guid, PackedGuid, DateTime, small fixed arrays, nested structs, if/else/optional); "
            "messages with strings or variable/endless arrays are checked as BOUNDED stand-ins (frames of at most ~16 bytes, ASCII string content) and reported separately; "
            "messages with masks, splines, NamedGuid, achievement arrays, self.size or compressed parts are listed under containers.not_loop_free and are not decided by this run",
            "decoding is exercised through Message::read_body::<Internal> on a slice whose length equals body_size (what every public reader passes)",
            "ParseError.kind is observed through a #[cfg(kani)] accessor appended to the scratch copy of errors.rs",
            "login messages are not yet under per-container contracts",
        ]
        run.samples = [c["name"] for c in run.contracts[:10]]
        return run.finish(vlib.make_kani_replay_hook(run, scratch, bs))
    finally:
        vlib.drop_scratch(scratch)


def replay(prop, path, extra_batches=None):
    import json
    h = json.load(open(path)).get("harness", "").split("::")[-1]

    def f(scratch):
        os.environ["VERIF_INCLUDE_UNMEASURED"] = "1"
        bs, _ = build("thorough", 0, prop, only=([h] if h.startswith(("ct_", "sh_")) else None))
        if extra_batches:
            bs = extra_batches(scratch) + bs
        return bs
    return vlib.replay_kani(prop, path, f)
