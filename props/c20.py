"""C20 — area-trigger containment and distance helpers match their geometric definition.

V: the bodies of is_within_square / distance_between / is_within_distance are transliterated token-for-token
   (f32 -> real, float literals -> real literals, .sin()/.cos()/.sqrt()/.abs() -> rsin/rcos/rsqrt/rabs, PI -> PI())
   from the current source on every run and proved equal to the geometric definition over the reals.
K: AreaTrigger::contains / verify_trigger dispatch, float helpers stubbed by order-sensitive abstract predicates."""
import os
import re
import subprocess
from lib import vlib

PROP = "C20"
GEOM = "wow_world_base/src/extended/top_level/geometry.rs"
FEATURES = ["vanilla", "tbc", "wrath", "shared", "extended"]

ALLOWED_TOKEN = re.compile(r"^(?:[A-Za-z_][A-Za-z_0-9]*|\d+\.\d+|\d+|[-+*/()!;,.:=<>|&{}\[\]]|\|\||&&|->|==|<=|>=)$")
TOK = re.compile(r"\|\||&&|->|==|<=|>=|\d+\.\d+|\d+|[A-Za-z_][A-Za-z_0-9]*|\S")


def strip_comments(s):
    s = re.sub(r"/\*.*?\*/", "", s, flags=re.S)
    s = re.sub(r"//[^\n]*", "", s)
    return s


def translit_fn(src, name):
    """Mechanical f32 -> real transliteration of `pub fn <name>`; returns Verus `spec fn` text.
    Anything outside the table raises AnchorLost (exit 2)."""
    _, _, text = vlib.extract_item(src, r"^pub fn %s\(" % re.escape(name), what=name)
    text = strip_comments(text)
    toks = TOK.findall(text)
    for t in toks:
        if not ALLOWED_TOKEN.match(t):
            raise vlib.AnchorLost("C20 transliteration: token %r of %s is outside the table" % (t, name))
    out = []
    i = 0
    while i < len(toks):
        t = toks[i]
        if t == "f32":
            out.append("real")
        elif re.match(r"^\d+\.\d+$", t):
            out.append(t + "real")
        elif t == "PI":
            out.append("PI()")
        elif t == "const" and toks[i + 1].isidentifier():
            out.append("let")          # `const DELTA: f32 = 2.0;` inside the body -> `let DELTA: real = 2.0real;`
        elif t == "." and i + 3 < len(toks) and toks[i + 1] in ("sin", "cos", "sqrt", "abs") and toks[i + 2] == "(" and toks[i + 3] == ")":
            # receiver is the expression just emitted: identifier or parenthesised group
            fn = {"sin": "rsin", "cos": "rcos", "sqrt": "rsqrt", "abs": "rabs"}[toks[i + 1]]
            if out and out[-1] == ")":
                depth = 0
                j = len(out) - 1
                while j >= 0:
                    if out[j] == ")":
                        depth += 1
                    elif out[j] == "(":
                        depth -= 1
                        if depth == 0:
                            break
                    j -= 1
                out.insert(j, fn)
            elif out and re.match(r"^[A-Za-z_]\w*$", out[-1]):
                recv = out.pop()
                out += [fn, "(", recv, ")"]
            else:
                raise vlib.AnchorLost("C20 transliteration: method call on unsupported receiver in %s" % name)
            i += 4
            continue
        else:
            out.append(t)
        i += 1
    body = " ".join(out)
    body = body.replace("pub fn", "pub open spec fn", 1)
    # cosmetics only
    body = re.sub(r" ([;,.)])", r"\1", body)
    body = re.sub(r"([(.!]) ", r"\1", body)
    body = body.replace("; ", ";\n    ").replace("{ ", "{\n    ", 1)
    return body


PRELUDE = """// generated each run by props/c20.py from %s
use vstd::prelude::*;
verus! {
// abstraction "f32 treated as the reals": transcendental functions are uninterpreted; the only facts used about
// them are stated as hypotheses of the lemmas below (and listed in the evidence as assumptions)
pub uninterp spec fn rsin(x: real) -> real;
pub uninterp spec fn rcos(x: real) -> real;
pub uninterp spec fn rsqrt(x: real) -> real;
pub uninterp spec fn PI() -> real;
pub open spec fn rabs(x: real) -> real { if x < 0real { -x } else { x } }
pub struct Vector3d { pub x: real, pub y: real, pub z: real }

// ---- transliterated from the real source (nothing else changed) -------------------------------------
"""

SPEC = """
// ---- geometric definitions (from the property statement) ---------------------------------------------
// box frame: translate to the box centre, rotate by -yaw; inside iff within half extents + 2 yards on each axis
pub open spec fn inside_box_def(p: Vector3d, c: Vector3d, l: real, w: real, h: real, yaw: real) -> bool {
    let dx = p.x - c.x;
    let dy = p.y - c.y;
    let bx = dx * rcos(yaw) + dy * rsin(yaw);
    let by = dy * rcos(yaw) - dx * rsin(yaw);
    let bz = p.z - c.z;
    rabs(bx) <= l / 2real + 2real && rabs(by) <= w / 2real + 2real && rabs(bz) <= h / 2real + 2real
}
pub open spec fn euclid_sq(a: Vector3d, b: Vector3d) -> real {
    (a.x - b.x) * (a.x - b.x) + (a.y - b.y) * (a.y - b.y) + (a.z - b.z) * (a.z - b.z)
}

pub proof fn c20_box_matches_definition(p: Vector3d, c: Vector3d, l: real, w: real, h: real, yaw: real)
    requires rsin(2real * PI() - yaw) == -rsin(yaw), rcos(2real * PI() - yaw) == rcos(yaw),
    ensures is_within_square(p, c, l, w, h, yaw) == inside_box_def(p, c, l, w, h, yaw),
{
    let s = rsin(yaw);
    let dx = p.x - c.x;
    let dy = p.y - c.y;
    assert(dy * (-s) == -(dy * s)) by(nonlinear_arith);
    assert(dx * (-s) == -(dx * s)) by(nonlinear_arith);
}

pub proof fn c20_distance_is_euclidean(a: Vector3d, b: Vector3d)
    ensures distance_between(a, b) == rsqrt(euclid_sq(a, b)),
{
}

// inside a circular trigger iff closer to the centre than the radius (for a non-negative radius):
// with rsqrt the non-negative root, dist < r  <=>  dist^2 < r^2
pub proof fn c20_within_distance_iff_closer_than_radius(a: Vector3d, b: Vector3d, r: real)
    requires r >= 0real, rsqrt(euclid_sq(a, b)) >= 0real, rsqrt(euclid_sq(a, b)) * rsqrt(euclid_sq(a, b)) == euclid_sq(a, b),
    ensures is_within_distance(a, b, r) == (euclid_sq(a, b) < r * r),
{
    let d = rsqrt(euclid_sq(a, b));
    assert(distance_between(a, b) == d);
    if d < r {
        assert(d * d < r * r) by(nonlinear_arith) requires 0real <= d, d < r;
    } else {
        assert(d * d >= r * r) by(nonlinear_arith) requires 0real <= r, r <= d;
    }
}

// vacuity canary: must be refuted
pub proof fn canary_c20(p: Vector3d, c: Vector3d, l: real, w: real, h: real, yaw: real)
    ensures is_within_square(p, c, l, w, h, yaw) == inside_box_def(p, c, l, w, h, yaw),
{
}
} // verus!
fn main() {}
"""


def verus_part(run, scratch):
    src = vlib.read(os.path.join(scratch, "repo", GEOM))
    parts = [translit_fn(src, n) for n in ("distance_between", "is_within_distance", "is_within_square")]
    text = PRELUDE % GEOM + "\n\n".join(parts) + "\n" + SPEC
    path = os.path.join(scratch, "c20_geometry.rs")
    vlib.write(path, text)
    vlib.write(os.path.join(vlib.VERIF, "logs", "c20_geometry.rs"), text)
    vr = vlib.verus_run(path)
    G = "wow_world_base::geometry::"
    run.absorb_verus(vr, path, {
        "c20_box_matches_definition": dict(obligation="C20:box-test-matches-rotated-frame-definition", functions=[G + "is_within_square"]),
        "c20_distance_is_euclidean": dict(obligation="C20:distance-is-euclidean", functions=[G + "distance_between"]),
        "c20_within_distance_iff_closer_than_radius": dict(obligation="C20:within-distance-iff-closer-than-radius",
                                                           functions=[G + "is_within_distance"]),
        "canary_c20": dict(canary=True),
    }, text)


def table_len(scratch, ver):
    p = os.path.join(scratch, "repo", "wow_world_base/src/extended/%s/trigger/triggers.rs" % ver)
    s = vlib.read(p)
    m = re.search(r"pub\(crate\) const TRIGGERS: &\[\(u32, \(AreaTrigger, &\[Trigger\]\)\)\] = &\[", s)
    if not m:
        raise vlib.AnchorLost("TRIGGERS table of %s not found" % ver)
    return len(re.findall(r"^\((\d+), \($", s, re.M))


def batches(scratch, tier="thorough"):
    tmpl = vlib.read(os.path.join(vlib.VERIF, "contracts/kani/c20_dispatch.rs"))
    inj = []
    specs = {}
    for ver in ("vanilla", "tbc", "wrath"):
        n = table_len(scratch, ver)
        code = tmpl.replace("@VER@", ver).replace("@N@", str(n)).replace("@UNWIND@", str(n + 2))
        prefix = "extended::%s::trigger::verif_kani" % ver
        inj.append(dict(host="src/extended/%s/trigger/mod.rs" % ver, moddir="src/extended/%s/trigger/verif_kani" % ver,
                        modules={"c20_dispatch": code}, prefix=prefix))
        specs[prefix + "::c20_dispatch::c20_contains_contract"] = dict(
            kind="complete", default_prop=PROP, functions=["wow_world_base::%s::trigger::AreaTrigger::contains" % ver])
        from lib import selection
        tab_changed = selection.changed(["wow_world_base/src/extended/%s/trigger/triggers.rs" % ver, "wow_world_base/src/extended/%s/trigger/mod.rs" % ver])
        if tier == "thorough" or ver == "vanilla" or tab_changed:
            # the lookup is one macro (verify_trigger!) instantiated per expansion: the quick tier proves the vanilla
            # instance (188 entries, ~2 min) and any expansion whose table files differ from the baseline; thorough proves all
            specs[prefix + "::c20_dispatch::c20_verify_trigger_contract"] = dict(
                kind="complete", default_prop=PROP, functions=["wow_world_base::%s::trigger::verify_trigger" % ver])
    specs["extended::vanilla::trigger::verif_kani::c20_dispatch::c20_canary"] = dict(canary=True)
    return [vlib.Batch("wow_world_base", FEATURES, {}, specs, stubbing=True, jobs=6, harness_timeout=1500, more_injections=inj)]


SEARCH_RS = r'''
// Replay aid for a refuted *Verus* obligation (Verus gives no counterexample): evaluates the REAL
// wow_world_base::geometry functions on a deterministic family of rotated boxes and points placed well away
// (>= 0.5 yards) from every face, and reports the first point where the real f32 code disagrees with the
// geometric definition evaluated in f64.
use wow_world_base::geometry::{distance_between, is_within_distance, is_within_square};
use wow_world_base::shared::vector3d_vanilla_tbc_wrath::Vector3d;
fn main() {
    let yaws = [0.0_f64, 0.3, 0.7853981633974483, 1.2, 2.0, 3.5, 5.0];
    let dims = [(10.0_f64, 4.0_f64, 6.0_f64), (40.0, 3.0, 8.0), (5.0, 30.0, 2.0)];
    let centre = (100.0_f64, -50.0_f64, 20.0_f64);
    for yaw in yaws { for (l, w, h) in dims {
        let offs = [-1.0_f64, -0.5, 0.0, 0.5, 1.0];
        for fx in offs { for fy in offs { for fz in [-1.0_f64, 0.0, 1.0] { for extra in [-0.5_f64, 0.5, 1.5, 2.5, 3.5] {
            // point in the box frame, scaled so that it sits `extra` yards beyond/inside the half extent
            let bx = fx * (l / 2.0 + extra); let by = fy * (w / 2.0 + extra); let bz = fz * (h / 2.0 + extra);
            let inside = bx.abs() <= l / 2.0 + 2.0 && by.abs() <= w / 2.0 + 2.0 && bz.abs() <= h / 2.0 + 2.0;
            let margin = [(bx.abs() - (l / 2.0 + 2.0)).abs(), (by.abs() - (w / 2.0 + 2.0)).abs(), (bz.abs() - (h / 2.0 + 2.0)).abs()]
                .iter().cloned().fold(f64::INFINITY, f64::min);
            if margin < 0.4 { continue; }
            // to world coordinates: rotate by +yaw, translate
            let px = centre.0 + bx * yaw.cos() - by * yaw.sin();
            let py = centre.1 + bx * yaw.sin() + by * yaw.cos();
            let pz = centre.2 + bz;
            let got = is_within_square(Vector3d { x: px as f32, y: py as f32, z: pz as f32 },
                Vector3d { x: centre.0 as f32, y: centre.1 as f32, z: centre.2 as f32 }, l as f32, w as f32, h as f32, yaw as f32);
            if got != inside {
                println!("FAILING-INPUT is_within_square player=({px},{py},{pz}) box_centre={centre:?} length={l} width={w} height={h} yaw={yaw} box_frame=({bx},{by},{bz}) real_code={got} definition={inside}");
                std::process::exit(1);
            }
        }}}}
    }}
    let a = Vector3d { x: 1.0, y: 2.0, z: 3.0 }; let b = Vector3d { x: 4.0, y: 6.0, z: 3.0 };
    if (distance_between(a, b) - 5.0).abs() > 1e-4 { println!("FAILING-INPUT distance_between((1,2,3),(4,6,3)) = {} (definition 5)", distance_between(a, b)); std::process::exit(1); }
    if !is_within_distance(a, b, 5.5) || is_within_distance(a, b, 4.5) { println!("FAILING-INPUT is_within_distance((1,2,3),(4,6,3), 5.5|4.5)"); std::process::exit(1); }
    println!("NO-FAILING-INPUT-FOUND");
}
'''


def search_real_code(scratch):
    """Builds a tiny binary against the scratch copy of wow_world_base and runs the candidate search. Returns output text."""
    d = os.path.join(scratch, "c20_search")
    os.makedirs(os.path.join(d, "src"), exist_ok=True)
    vlib.write(os.path.join(d, "Cargo.toml"),
               '[package]\nname = "c20_search"\nversion = "0.0.0"\nedition = "2021"\n[workspace]\n[dependencies]\n'
               'wow_world_base = { path = "../repo/wow_world_base", features = ["extended", "vanilla", "shared"] }\n')
    vlib.write(os.path.join(d, "src/main.rs"), SEARCH_RS)
    p = subprocess.run(["cargo", "run", "--offline", "-q"], cwd=d, env=vlib.ENV, stdout=subprocess.PIPE, stderr=subprocess.STDOUT,
                       text=True, timeout=1200)
    return p.stdout


def check(tier, seed):
    run = vlib.Run(PROP, tier, seed)
    scratch = vlib.make_scratch()
    try:
        verus_part(run, scratch)
        bs = batches(scratch, tier)
        vlib.run_batches(run, scratch, bs)
        run.trusted += ["Verus 0.2026.09.13 / Z3; Kani 0.68 / CBMC 6.11",
                        "machine arithmetic treated as mathematical: f32 is modelled as the reals (rounding, NaN, infinities ignored)",
                        "trigonometric facts assumed: sin(2*pi - y) = -sin(y), cos(2*pi - y) = cos(y); sqrt(q) >= 0 and sqrt(q)^2 = q for the Euclidean sum q",
                        "the transliteration table of props/c20.py (f32->real, literals, sin/cos/sqrt/abs, PI, const->let); any other token makes the run undecided"]
        run.assumptions += ["dispatch contracts: is_within_square / is_within_distance are replaced by order-sensitive abstract predicates (#[kani::stub])",
                            "trace_point_2d and distance_2d are not named by the property and are not under contract"]
        run.samples = ["c20_box_matches_definition: forall p,c,l,w,h,yaw in R. is_within_square == (|R(-yaw)(p-c)|_axis <= half extent + 2)",
                       "c20_verify_trigger_contract (per expansion): forall player, id. NotFound iff id not in table; else Success/NotInsideTrigger of that entry per contains"]

        def hook(refuted):
            vr = [r for r in refuted if r["engine"] == "verus"]
            if vr:
                out = search_real_code(scratch)
                fi = [l for l in out.splitlines() if l.startswith("FAILING-INPUT")]
                import json
                for r in vr:
                    path = os.path.join(vlib.VERIF, "replays", PROP, vlib.slug(r["contract"] + "__" + r["obligation"]) + ".json")
                    vlib.write(path, json.dumps(dict(property=PROP, obligation=r["obligation"], contract=r["contract"], engine="verus",
                                                     verifier_output=r.get("detail", ""), failing_input=fi[0] if fi else None,
                                                     search_output=out[-2000:],
                                                     how="./check C20 --replay <this file> re-runs the candidate search against the real f32 code"), indent=1))
                    r["replay"] = path
                    r["has_input"] = bool(fi)
            kr = [r for r in refuted if r["engine"] == "kani"]
            if kr:
                vlib.make_kani_replay_hook(run, scratch, bs)(kr)
        return run.finish(hook)
    finally:
        vlib.drop_scratch(scratch)


def replay(path):
    import json
    j = json.load(open(path))
    if j.get("engine") == "verus":
        scratch = vlib.make_scratch()
        try:
            out = search_real_code(scratch)
            print(out[-3000:])
            if "FAILING-INPUT" in out:
                print("VIOLATION property=%s replay=%s" % (PROP, path))
                return 1
            print("replay: the candidate search finds no failing input on the current tree (obligation %s)" % j.get("obligation"))
            return 0
        finally:
            vlib.drop_scratch(scratch)
    return vlib.replay_kani(PROP, path, batches)
